#!/usr/bin/env python3
"""dig_cases.py [--show] [--all]: bounded stand-in for the part of C16 no contract reaches (the XML walk at the start of
dig::File::parse): circuit descriptions are rendered as .dig XML, loaded by the real crate (replay --dig), and the result is
compared with what the STATEMENT of C16 prescribes for the description; every document is also corrupted (truncations, byte
replacements) and must then give a file or an error, never a panic. Never counted as proof."""
import itertools, json, os, subprocess, sys, random
HERE = os.path.dirname(os.path.abspath(__file__))
sys.path.insert(0, HERE)
import run_scenario
VERIF = os.path.dirname(HERE)
WORK = os.path.join(VERIF, "build", "digcases", str(os.getpid()))  # per process: concurrent checks must not share files


def xml_escape(s):
    return s.replace("&", "&amp;").replace("<", "&lt;").replace(">", "&gt;")


def element_xml(name, entries, var):
    """one <visualElement>. `var` (None = the layout Digital writes) varies what the statement does not fix: the order of the
    element's children, the order of its attribute entries, and unrelated entries - one of them with a VALUE that reads like a key"""
    if var is not None:
        extra = ['<entry><string>rotation</string><rotation rotation="3"/></entry>',
                 '<entry><string>Description</string><string>' + var.choice(["Label", "Bits", "Testdata", "InDefault", "x"]) + '</string></entry>']
        entries = entries + [x for x in extra if var.random() < 0.5]
        var.shuffle(entries)
        # an attribute entry without element children in front of the others: it is no attribute, the ones behind it still count
        if var.random() < 0.3:
            entries = [var.choice(["<entry/>", "<entry>text</entry>"])] + entries
    parts = ([] if name == "__none__" else [f"<elementName>{name}</elementName>"]) + ["<elementAttributes>" + "".join(entries) + "</elementAttributes>", '<pos x="0" y="0"/>']
    if var is not None:
        var.shuffle(parts)
    return "<visualElement>" + "".join(parts) + "</visualElement>"


def pin_xml(p, var=None):
    e = []
    if p.get("label") is not None:
        e.append(f"<entry><string>Label</string><string>{xml_escape(p['label'])}</string></entry>")
    if p.get("bits") is not None:
        e.append(f"<entry><string>Bits</string><int>{p['bits']}</int></entry>")
    d = p.get("default")
    if d is not None:
        if d == "Z":
            # Digital writes both attributes; `zonly`: only z
            e.append('<entry><string>InDefault</string><value z="true"/></entry>' if p.get("zonly") else
                     f'<entry><string>InDefault</string><value v="{p.get("zv", 0)}" z="true"/></entry>')
        else:
            e.append(f'<entry><string>InDefault</string><value v="{d}" z="false"/></entry>')
    return element_xml(p["kind"], e, var)


def test_xml(t, var=None):
    e = [f"<entry><string>Label</string><string>{xml_escape(t['label'])}</string></entry>"] if t.get("label") is not None else []
    e.append(f"<entry><string>Testdata</string><testData><dataString>{xml_escape(t['source'])}</dataString></testData></entry>")
    return element_xml("Testcase", e, var)


def render(desc, var=None):
    els = [pin_xml(e, var) if "kind" in e else test_xml(e, var) for e in desc]
    return ('<?xml version="1.0" encoding="utf-8"?>\n<circuit>\n<version>2</version><attributes/><visualElements>\n'
            + "\n".join(els) + "\n</visualElements><wires/></circuit>\n")


def header_of(src):
    """header names: the first line that is not blank (C19: blank lines may precede the header), split at blanks"""
    for line in src.split("\n"):
        if line.strip():
            return line.split()
    return None


def expected(desc):
    """what the statement of C16 prescribes: (inputs, outputs, tests) or 'error'; inputs as (name, bits, default|None=unspecified)"""
    pins = [e for e in desc if "kind" in e]
    tests = [e for e in desc if "kind" not in e]
    ins = [(p["label"], p.get("bits") or 1, p.get("default")) for p in pins if p["kind"] in ("In", "Clock") and p.get("label") is not None]
    outs = [(p["label"], p.get("bits") or 1) for p in pins if p["kind"] == "Out" and p.get("label") is not None]
    labels = {x[0] for x in ins} | {x[0] for x in outs}
    in_names = {x[0] for x in ins}
    bid = set()
    for t in tests:
        h = header_of(t["source"])
        if h is None:
            return "error"
        for n in h:
            if n.endswith("_out") and n not in labels and n[:-4] in in_names:
                bid.add(n[:-4])
            elif n not in labels:
                return "error"
    return dict(ins=ins, outs=outs, bid=bid, tests=[(t.get("label"), t["source"]) for t in tests])


def compare(desc, got):
    exp = expected(desc)
    bad = []
    if "panic" in got:
        return [f"panic: {got['panic']}"]
    if exp == "error":
        if "error" not in got:
            bad.append(f"loaded although a test header names a signal the circuit does not have (or a test is empty): {got}")
        return bad
    if "error" in got:
        return [f"error instead of a file: {got['error']}"]
    gi, go = [], []
    for s in got["signals"]:
        w = s.split(" ")
        (gi if w[0] in ("in", "bidir") else go).append(w)
    if [(w[1], int(w[2])) for w in gi] != [(n, b) for n, b, _ in exp["ins"]]:
        bad.append(f"inputs {[(w[1], int(w[2])) for w in gi]} != labelled In/Clock pins {[(n, b) for n, b, _ in exp['ins']]}")
    else:
        seen = set()
        for w, (n, b, d) in zip(gi, exp["ins"]):
            if d is not None and w[3] != str(d):
                bad.append(f"default of {n} is {w[3]}, the pin says {d}")
            first = n not in seen
            seen.add(n)
            want_bid = n in exp["bid"] and first
            if (w[0] == "bidir") != want_bid:
                bad.append(f"{n} is {'bidirectional' if w[0] == 'bidir' else 'a plain input'}; the headers {'do' if want_bid else 'do not'} make it bidirectional")
    if [(w[1], int(w[2])) for w in go] != exp["outs"]:
        bad.append(f"outputs {[(w[1], int(w[2])) for w in go]} != labelled Out pins {exp['outs']}")
    if any(w[0] not in ("out",) for w in go):
        bad.append(f"an Out pin is not an output: {go}")
    gt = got["tests"]
    if [t[1] for t in gt] != [t[1] for t in exp["tests"]]:
        bad.append(f"test sources {[t[1] for t in gt]} != {[t[1] for t in exp['tests']]} (verbatim, document order)")
    else:
        for (gn, _), (en, _) in zip(gt, exp["tests"]):
            if en is not None and gn != en:
                bad.append(f"test label {gn!r} != {en!r}")
    for l in got.get("loaded", []) + got.get("by_name", []):
        if "DIFFERS" in l or "panic" in l:
            bad.append(f"load: {l}")
    n = len(exp["tests"])
    if got.get("loaded") is not None:
        if len(got["loaded"]) != n + 1 or not got["loaded"][-1].endswith("index-error"):
            bad.append(f"load_test({n}) past the last test: {got['loaded'][-1:]}")
        if not got["by_name"][-1].endswith("name-error"):
            bad.append(f"load_test_by_name of an unknown name: {got['by_name'][-1]}")
    return bad


def run_docs(docs, load=True, profiles=("release", "debug")):
    """docs: list of texts; returns per profile the list of parsed JSON results"""
    os.makedirs(WORK, exist_ok=True)
    paths = []
    for i, d in enumerate(docs):
        p = os.path.join(WORK, f"{i}.dig")
        with open(p, "w") as f:
            f.write(d)
        paths.append(p)
    res = {}
    for prof in profiles:
        exe = os.path.join(run_scenario.TARGET, prof, "verif_replay")
        out = []
        for k in range(0, len(paths), 400):
            p = subprocess.run([exe, "--dig"] + (["load"] if load else []) + paths[k:k + 400], capture_output=True, text=True, timeout=600)
            lines = p.stdout.strip().split("\n") if p.stdout.strip() else []
            for l in lines:
                try:
                    out.append(json.loads(l))
                except Exception:
                    out.append(dict(panic="garbled output: " + l[:200]))
            if len(lines) != len(paths[k:k + 400]):
                out += [dict(panic=f"replayer died (rc {p.returncode}): {p.stderr[-300:]}")] * (len(paths[k:k + 400]) - len(lines))
        res[prof] = out
    return res, paths


def P(kind, label=None, bits=None, default=None):
    return dict(kind=kind, label=label, bits=bits, default=default)


def T(label, source):
    return dict(label=label, source=source)


HAND = [
    # the fixtures' shape
    [P("In", "A", 4, 5), P("In", "B", None, "Z"), P("Out", "Y", 8), T("t1", "A B Y\n0 0 0\n"), T("t2", "A Y\n1 1\n")],
    # bidirectional by header
    [P("In", "A", 4, 5), P("In", "B"), P("Out", "Y", 8), T("t1", "A A_out Y\n0 0 0\n"), T("t1", "A Y\n1 1\n"), T(None, "B Y\n1 1\n")],
    # an output pin that is itself called C_out (carry out), with and without a pin C
    [P("In", "A"), P("Out", "C_out"), T("t", "A C_out\n0 0\n")],
    [P("In", "C"), P("Out", "C_out"), T("t", "C C_out\n0 0\n")],
    [P("In", "C"), P("In", "C_out"), P("Out", "Y"), T("t", "C C_out Y\n0 0 0\n")],
    # `<name>_out` of an output, of nothing
    [P("In", "A"), P("Out", "Y"), T("t", "A Y_out\n0 0\n")],
    [P("In", "A"), P("Out", "Y"), T("t", "A Q_out\n0 0\n")],
    [P("In", "A"), P("Out", "Y"), T("t", "A _out\n0 0\n")],
    # unknown plain name, empty test, comment-only test
    [P("In", "A"), P("Out", "Y"), T("t", "A Q\n0 0\n")],
    [P("In", "A"), P("Out", "Y"), T("t", "\n \n")],
    [P("In", "A"), P("Out", "Y"), T("t", "# nothing\n\n")],
    # clock, unlabelled pins, other elements, widths
    [P("Clock", "CLK"), P("In", None, 4), P("And"), P("Out", None), P("In", "D", 64, 0), P("Out", "Q", 64), T("t", "CLK D Q\nC 1 1\n")],
    # document order is kept, inputs and outputs interleaved
    [P("Out", "Y1"), P("In", "A1"), P("Out", "Y2", 2), P("Clock", "K"), P("In", "A2", 3, 7), T("b", "A1 Y1\n0 0\n"), T("a", "A2 Y2\n0 0\n"), T("c", "K Y1\nC 0\n")],
    # high-Z defaults as Digital writes them (v and z), with a non-zero v, and with z alone
    [P("In", "A", 4, "Z"), dict(kind="In", label="B", bits=None, default="Z", zv=7), dict(kind="In", label="D", bits=2, default="Z", zonly=True), P("Out", "Y"), T("t", "A B D Y\n0 0 0 0\n")],
    # no tests, no pins
    [P("In", "A"), P("Out", "Y")],
    [T("t", "A\n0\n")],
    [],
    # sources with characters XML escapes, leading blank lines and comments, operators
    [P("In", "A", 8), P("Out", "Y", 8), T("shift & compare", "\n\nA Y\n# a comment\nlet a = 1 << 2;\n(a) (a<5 & a>1)\n")],
    # two tests sharing a label: by name the first
    [P("In", "A"), P("Out", "Y"), T("same", "A Y\n0 0\n"), T("same", "A Y\n1 1\n"), T("other", "A Y\n1 0\n")],
    # labels that differ only in letter case or by a blank are different labels
    [P("In", "A"), P("Out", "Y"), T("step", "A Y\n0 0\n"), T("STEP", "A Y\n1 1\n"), T("Step ", "A Y\n1 0\n")],
    # a test that does not parse / does not bind is still listed (load_test reports it)
    [P("In", "A"), P("Out", "Y"), T("bad", "A Y\n0 0 0\n"), T("worse", "A Y\nloop(\n")],
    # bidirectional marker used in one test only; marker for the second of two inputs
    [P("In", "A"), P("In", "B", 2, "Z"), P("Out", "Y"), T("t1", "A B Y\n0 0 0\n"), T("t2", "B B_out\n1 1\n")],
    # duplicate labels
    [P("In", "A", 1, 1), P("In", "A", 2, 3), P("Out", "Y"), T("t", "A A_out Y\n0 0 0\n")],
    # an element without any <elementName> is no pin and no test either
    [P("In", "A"), P("__none__", "NONAME", 4, 1), P("Out", "Y"), T("t", "A Y\n0 0\n")],
    # an element whose name is empty is no pin and no test
    [P("In", "A"), P("", "GHOST", 4, 1), P("Out", "Y"), dict(kind="", label="t0", bits=None, default=None), T("t", "A Y\n0 0\n")],
    # labels that read like attribute keys or element names
    [P("In", "Bits", 4, 1), P("In", "Label", 2), P("Out", "InDefault", 3), P("Out", "Testdata"), P("Clock", "In"), P("Out", "Out", 2),
     T("Testdata", "Bits Label InDefault Testdata\n0 0 0 0\n"), T("Label", "Bits InDefault\n1 1\n"), T("Bits", "In Out\nC 0\n")],
    [P("In", "A"), P("Out", "A"), T("t", "A A_out\n0 0\n")],
]


def enumerated(limit=None, seed=0):
    """small circuits over a pool of pins and headers, every combination of 2..3 pins and 1..2 tests"""
    pins = [P("In", "A"), P("In", "A", 4, 3), P("In", "B", 2, "Z"), P("Clock", "A_out"), P("Out", "Y", 8), P("Out", "A_out"), P("Out", "B"), P("In", None, 2), P("Out", "A")]
    hdrs = ["A Y", "A A_out", "B_out B", "A_out", "Y_out A", "A B Y", "Q_out", "A", "Y"]
    cases = []
    for n in (1, 2, 3):
        for ps in itertools.permutations(pins, n):
            for h in hdrs:
                cases.append(list(ps) + [T("t", h + "\n" + " ".join("0" for _ in h.split()) + "\n")])
    for ps in itertools.permutations(pins, 2):
        for h1, h2 in itertools.permutations(hdrs[:6], 2):
            cases.append(list(ps) + [T("t1", h1 + "\n"), T("t2", h2 + "\n")])
    if limit is not None and len(cases) > limit:
        random.Random(seed).shuffle(cases)
        cases = cases[:limit]
    return cases


def corruptions(doc, step, rnd):
    out = [doc[:k] for k in range(0, len(doc), step)]
    for _ in range(len(doc) // step):
        k = rnd.randrange(len(doc))
        out.append(doc[:k] + rnd.choice("<>&\"'/= \n\x00z") + doc[k + 1:])
        a, b = sorted((rnd.randrange(len(doc)), rnd.randrange(len(doc))))
        out.append(doc[:a] + doc[b:])
    return out


def run(thorough=False, seed=0):
    """returns (n_documents, [(description-or-None, text, [mismatches])])"""
    run_scenario.build()
    descs = HAND + enumerated(None if thorough else 600, seed)
    docs = [render(d) for d in descs]
    # the same descriptions in layouts the statement does not distinguish (child order, entry order, unrelated entries)
    vr = random.Random(f"layout/{seed}")
    vdescs = HAND * (6 if thorough else 3) + enumerated(None if thorough else 600, seed)[:(2000 if thorough else 200)]
    descs = descs + vdescs
    docs = docs + [render(d, vr) for d in vdescs]
    res, _ = run_docs(docs, load=True)
    fails = []
    for prof, outs in res.items():
        for d, doc, got in zip(descs, docs, outs):
            bad = compare(d, got)
            if bad:
                fails.append((d, doc, [f"{prof}: {b}" for b in bad]))
    # corruptions of the hand-written documents (and of the crate's own fixture): a file or an error, never a panic
    rnd = random.Random(seed)
    cdocs = []
    for d in HAND:
        cdocs += corruptions(render(d), 7 if thorough else 23, rnd)
    fx = os.path.join("/repo", "tests", "data", "Counter.dig")
    if os.path.exists(fx):
        cdocs += corruptions(open(fx).read(), 97 if thorough else 397, rnd)
    cres, _ = run_docs(cdocs, load=False)
    for prof, outs in cres.items():
        for doc, got in zip(cdocs, outs):
            if "panic" in got:
                fails.append((None, doc, [f"{prof}: corrupted document: panic: {got['panic']}"]))
    import shutil
    shutil.rmtree(WORK, ignore_errors=True)
    # one failure per distinct message is enough
    seen, uniq = set(), []
    for f in fails:
        k = f[2][0].split(": ", 1)[-1][:60]
        if k not in seen:
            seen.add(k)
            uniq.append(f)
    return len(docs) + len(cdocs), uniq


if __name__ == "__main__":
    n, fails = run(thorough="--all" in sys.argv)
    print(f"{n} documents, {len(fails)} distinct failures")
    for d, doc, bad in fails[:20]:
        print("FAIL", json.dumps(d)[:300] if d is not None else "(corruption)")
        for b in bad[:4]:
            print("     !!", b[:400])
    sys.exit(1 if fails else 0)
