#!/usr/bin/env python3
"""replay_show.py <replay.json>: print the failed obligation; if the file carries a failing input, re-run it on the real crate"""
import json, os, sys, tempfile
sys.path.insert(0, os.path.dirname(os.path.abspath(__file__)))
d = json.load(open(sys.argv[1]))
print(json.dumps(d["failed_obligation"], indent=1))
print(d.get("verifier_output", ""))
fi = d.get("failing_input")
if fi and fi.get("scenario"):
    import run_scenario
    run_scenario.build()
    with tempfile.NamedTemporaryFile("w", suffix=".scn", delete=False) as f:
        f.write(fi["scenario"])
    print(json.dumps(run_scenario.run(f.name), indent=1))
    os.unlink(f.name)
else:
    print(d.get("note"))
