#!/usr/bin/env python3
"""regenerate MANIFEST.json from contracts/properties.json (claims) + contracts/not_applicable.json"""
import json, os
V = os.path.dirname(os.path.dirname(os.path.abspath(__file__)))
pm = json.load(open(os.path.join(V, "contracts", "properties.json")))
na = json.load(open(os.path.join(V, "contracts", "not_applicable.json")))
props = [json.loads(l) for l in open(os.path.join(V, "properties.jsonl"))]
ids = [p["id"] for p in props]
checks = []
for pid in ids:
    if pid not in pm or not pm[pid].get("claimed", True):
        continue
    s = pm[pid]
    checks.append(dict(
        property_id=pid,
        quick_cmd=f"./check {pid}",
        thorough_cmd=f"./check {pid} --tier thorough",
        evidence_file=f"/verif/evidence/{pid}.json",
        replay_cmd_template="python3 tools/replay_show.py {path}",
        engine="verus-contracts",
        level_claimed=dict(category=s.get("category", "proof"), text=s.get("level_text", ""), design_ref=s.get("design_ref", "DESIGN.md section 5 " + pid)),
        level_note=s.get("level_note", ""),
        technique="contract-based deductive verification (Verus): requires/ensures/invariants/lemmas spliced onto the real functions, extracted mechanically from /repo/src on every run, discharged function by function; must-fail canaries against vacuity; as labelled bounded stand-in / witness search when the verifier is undecided (never counted as proved): a hand-written scenario library, exhaustive small-text grids and a regression grid of generated scenarios, all replayed on the real crate through its public API" + (s.get("technique_extra") or ""),
    ))
nal = []
for pid in ids:
    if pid in [c["property_id"] for c in checks]:
        continue
    nal.append(dict(property_id=pid, reason=na.get(pid, "check not built yet (work in progress; see DESIGN.md section 9)")))
m = dict(
    version=1,
    setup_cmd="python3 tools/setup.py",
    hooks=dict(guard="none (no source hooks in /repo)",
               enable="not needed: every check extracts the function texts from /repo/src on each run (tools/vx.py); Kani twins and replays build scratch copies / the public API",
               baseline_off_cmd="cd /repo && cargo test --workspace --no-fail-fast --offline",
               source_commits=[], add_only=True),
    engines=[dict(name="verus-contracts", path="tools/check.py", serves_properties=[c["property_id"] for c in checks],
                  kind_free_text="extract real functions -> splice contracts -> verus; must-fail canaries; origin map from diagnostics to clauses")],
    checks=checks,
    notes="See DESIGN.md (sections 11-13 are the as-built record). An UNDECIDED line (lost anchor / construct outside the verifier's reach / resource limit) is never a violation: the bounded scenario stand-in then decides (VIOLATION + exit 1 if a scenario fails, BOUNDED-ONLY + exit 0 if all pass, evidence level 'other'); exit 2 only if nothing could be explored.",
    not_applicable=nal,
)
json.dump(m, open(os.path.join(V, "MANIFEST.json"), "w"), indent=1)
print("claimed:", [c["property_id"] for c in checks])
