#!/usr/bin/env python3
"""seed_prompt.py <worktree-root> <id>=<style> ... : write OUT/prompt.txt + OUT/property.txt into scratch worktrees
<worktree-root>/<id> for seeding sub-agents.  The prompt holds only the text of the property (nothing from /verif)."""
import json, os, sys

T = '''You are helping to evaluate a verification tool for the Rust crate in the git worktree {wt} (a scratch worktree of the repository olofos/digital_test_runner: a library that lexes, parses and interprets the test-case DSL of the "Digital" circuit simulator and drives a device under test row by row). Work ONLY inside {wt}. Do not look at or touch anything outside it (in particular nothing under /verif and nothing under /repo). The sandbox has no network; use `cargo ... --offline`.

Here is one semantic property the crate is supposed to satisfy (also in {wt}/OUT/property.txt):

---
{pid} - {title}

{stmt}
---

Task: write a change to the crate's source (src/**, not tests) that BREAKS this property while
 (1) the crate still compiles (no new warnings in the library), and
 (2) the complete existing test suite still passes (`cargo test --offline` - unit tests, tests/74779.rs, doc tests), and
 (3) the break does not show under ordinary use; it needs something specific to manifest. The style I want for this one: {style}.
The change should look like something a maintainer could plausibly commit (a refactoring, an optimisation, a bug fix gone slightly wrong) - not sabotage with magic constants, and not a change that special-cases a literal name or value.

Also write a demonstration: a file {wt}/OUT/demo_test.rs that works as an integration test when copied to {wt}/tests/demo_test.rs (uses only the crate's public API: `digital_test_runner::{{ParsedTestCase, TestCase, Signal, TestDriver, InputEntry, OutputEntry, InputValue, OutputValue, ExpectedValue, DataRow, dig, ...}}`, see src/lib.rs docs and tests/74779.rs for how to use it), with at least one test that FAILS with your change applied and PASSES on the unchanged source, and preferably a control test that passes in both.

Deliverables, all in {wt}/OUT/:
  - patch.diff : `git diff` of your source change against HEAD (src/ only; must apply with `git apply` on a clean checkout)
  - demo_test.rs : the demonstration
  - meta.json : {{"property": "{pid}", "summary": "<what the change does and why it breaks the property>", "needs": "<what exactly is needed for it to manifest>", "files": [..], "verified": "<the commands you ran and what you saw>"}}

Before you finish, verify all of it yourself: with the change applied run the full existing suite (must pass) and the demo (must fail); then undo the source change with `git apply -R OUT/patch.diff` or `git checkout -- src` (do NOT use `git stash` - the stash is shared with other worktrees), run the demo again (must pass), and remove tests/demo_test.rs. Leave the worktree with a clean `git status` apart from OUT/. Report briefly what you did.'''


def main():
    root = sys.argv[1]
    props = {}
    for l in open('/verif/properties.jsonl'):
        p = json.loads(l)
        props[p['id']] = p
    for arg in sys.argv[2:]:
        wid, style = arg.split('=', 1)
        pid = wid.split('-')[0]
        p = props[pid]
        wt = os.path.join(root, wid)
        os.makedirs(os.path.join(wt, 'OUT'), exist_ok=True)
        open(os.path.join(wt, 'OUT', 'property.txt'), 'w').write(f"{p['id']} - {p['title']}\n\n{p['statement']}\n")
        open(os.path.join(wt, 'OUT', 'prompt.txt'), 'w').write(
            T.format(wt=wt, pid=pid, title=p['title'], stmt=p['statement'], style=style))


if __name__ == '__main__':
    main()
