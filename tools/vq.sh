#!/bin/sh
# vq.sh <unit> [function-pattern]: regenerate + run verus, print a compact error list
cd /verif && python3 tools/vx.py "$1" | grep UNDECIDED && exit 2
cd build
if [ -n "$2" ]; then SEL="--verify-root --verify-function $2"; fi
verus "$1.rs" --triggers-mode silent --multiple-errors 15 $SEL 2>&1 | python3 -c "
import sys,re
txt=sys.stdin.read()
blocks=re.split(r'\n(?=error|warning|note|verification results)',txt)
for b in blocks:
    if b.startswith('error'):
        lines=b.split('\n')
        head=lines[0]
        locs=[l.strip() for l in lines if re.search(r'^\s*--> ',l)]
        marks=[l.strip()[:150] for l in lines if ('^' in l or ' - at' in l or '-- ' in l) and '|' in l]
        srcl=[l.strip()[:160] for l in lines if re.match(r'^\s*\d+ \|',l)]
        ex=[lines[i-1].strip()[:150] for i,l in enumerate(lines) if 'at this exit' in l or 'at the end of' in l]
        print(head[:120]); 
        for l in locs[:2]: print('    ',l)
        for l in (ex or srcl[:3]): print('       ',l)
    elif b.startswith('verification results'):
        print(b.split('\n')[0])
"
