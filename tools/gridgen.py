#!/usr/bin/env python3
"""gridgen.py record | check <focus>... | show <focus> <k>

Regression grid: the widest part of the bounded stand-in. For every focus (one per property with a row-level meaning) a fixed,
generated family of scenarios - signal list, driver behaviour, test program - is stored under scenarios/grid/<focus>.jsonl.gz
TOGETHER WITH what the real crate did with it on the tree on which the contracts of that property were proved (`record`, run by
hand on a tree where every check passes). `check` replays the stored scenarios on the current tree (debug and release) and reports
every scenario whose observable outcome differs: accepted/rejected, the rows (input values, outputs as value/expected, line), the
driver call log, vars(), verdicts, the static rows, the rerun flags. Error TEXTS and `changed` marks are not compared.

This is not a proof and not an oracle derived from the statements: it says that behaviour the proofs were about has changed in an
observable the statements fix (for accepted programs with deterministic drivers the row stream is determined by C01..C08, C14, C18,
C19). It is used only where the verifier is undecided (the function was reshaped), when it already reports a violation (to attach an
input), and in the thorough tier. The generator avoids the one recorded unspecified corner (F-while-scope: no variable shares a
name with a signal unless it is bound before use on every path)."""
import gzip, json, os, random, re, subprocess, sys
HERE = os.path.dirname(os.path.abspath(__file__))
sys.path.insert(0, HERE)
import run_scenario
VERIF = os.path.dirname(HERE)
GRID = os.path.join(VERIF, "scenarios", "grid")
FOCI = ["C01", "C02", "C03", "C04", "C05", "C06", "C07", "C08", "C13", "C14", "C15", "C18", "C19", "C10", "C11", "C12", "C17"]
# C10: programs with unguarded arithmetic; oracle from the statement alone (no panic, no hang), nothing recorded is compared.
# C11: a valid scenario whose SIGNAL LIST is then damaged (signal dropped, renamed, duplicated, direction changed): bind verdict.
# C12: a valid scenario whose PROGRAM TEXT is then damaged by one token-level edit: parse verdict and error location validity.
# C09 replays the C12 pool with the statement's oracle (no panic, error locations inside the text).
VERDICT_ONLY = {"C11": ("stage", "outcome"), "C12": ("stage", "outcome", "spans_valid")}
POOL_OF = {"C09": "C12"}
TOKEN_POOL = ["loop", "end", "while", "repeat", "let", "declare", "bits", "resetRandom", "(", ")", ",", ";", "=", "+", "<<", "!", "~",
              "X", "C", "Z", "0x10000000000000000", "18446744073709551616", "0b2", "09", "0x", "q", "ite", "random", "signExt", "foo(1)",
              "ite(1,2)", "ite(1,2,3,4)", "bits(65,1)", "bits(0,1)", "1 2", "\n", "#"]
PER_FOCUS = 250
SIZE = {"C12": 2000, "C11": 1000, "C10": 750, "C17": 400}
# cases appended behind the first SIZE ones (so that those stay as recorded): constellations the first generator never builds -
# a header column shared by two signals (`IO_out` is the expected column of the bidirectional IO *and* of an output or a declared
# virtual signal that is itself called IO_out) with different widths; an input the header omits in front of listed ones
EXTRA = {"C07": 80, "C06": 80, "C03": 60, "C14": 40, "C02": 40, "C05": 40, "C11": 400, "C13": 150, "C10": 160, "C12": 300, "C19": 80, "C17": 150}
# C11 extra cases: undamaged signal lists, but a `C` may stand in ANY column (an output's, a bidirectional signal's `_out`
# column, a virtual signal's): the recorded verdict says which of these bind

BINOPS = ["+", "-", "*", "/", "%", "&", "|", "^", "<<", ">>", "=", "!=", "<", ">", "<=", ">="]
VARS = ["a", "b", "c", "i", "j", "k", "n", "x", "y"]
LITS = [0, 1, 2, 3, 5, 7, 8, 15, 16, 255, 256, 1000, 65535, 4294967296, 9223372036854775807]


class Gen:
    def __init__(self, rnd, focus, exotic=False, c_anywhere=False):
        self.r, self.focus = rnd, focus
        self.exotic = exotic
        self.c_anywhere = c_anywhere
        self.lines = []
        self.rows_budget = 24
        self.shadow = []
        self.out_reads = focus in ("C04", "C03", "C01") and rnd.random() < (0.8 if focus == "C04" else 0.3)

    def p(self, prob):
        return self.r.random() < prob

    def lit(self):
        v = self.r.choice(LITS) if self.p(0.7) else self.r.randrange(0, 1 << self.r.choice([4, 8, 16, 32, 63]))
        f = self.r.random()
        if self.focus in ("C08", "C07") and f < 0.45 or f < 0.15:
            k = self.r.choice("xbo")
            return {"x": f"0x{v:X}" if self.p(0.5) else f"0x{v:x}", "b": f"0b{v:b}", "o": f"0{v:o}" if v else "0"}[k]
        return str(v)

    def expr(self, scope, depth, outs):
        r = self.r
        if depth <= 0 or self.p(0.3):
            c = r.random()
            if scope and c < 0.45:
                return r.choice(scope)
            if outs and self.out_reads and c < 0.7:
                return r.choice(outs)
            return self.lit()
        c = r.random()
        if self.focus == "C08" and c < 0.1:
            # a flat chain: operators of several precedence levels side by side, no parentheses
            k = r.randrange(3, 7)
            t = self.atom(scope, 0, outs)
            for _ in range(k - 1):
                t += f" {r.choice(['|', '^', '&', '=', '<', '<<', '+', '*', '-', '>>', '!=', '>'])} {self.atom(scope, 0, outs)}"
            return t
        if self.focus == "C08" and c < 0.14:
            return f"ite({r.choice(['0', '1', '5'])}, {self.atom(scope, 0, outs)}, {self.atom(scope, 0, outs)} / 0)" if self.p(0.5) else \
                   f"ite({r.choice(['0', '1', '5'])}, {self.atom(scope, 0, outs)} % 0, {self.atom(scope, 0, outs)})"
        if c < (0.25 if self.focus == "C08" else 0.12):
            u = r.choice(["-", "~", "!"])
            if self.p(0.35):
                u += r.choice(["-", "~", "!", u[0]])
            return u + self.atom(scope, depth - 1, outs)
        if c < 0.2:
            return f"ite({self.expr(scope, depth - 1, outs)}, {self.expr(scope, depth - 1, outs)}, {self.expr(scope, depth - 1, outs)})"
        ops = BINOPS if self.focus in ("C08", "C10") or self.p(0.3) else ["+", "-", "*", "&", "|", "^", "<", "=", ">>", "<<"]
        op = r.choice(ops)
        # operands are atoms or, often, bare sub-expressions: the printed text then leans on the precedence rules (C08)
        l = self.expr(scope, depth - 1, outs) if self.p(0.5) else self.atom(scope, depth - 1, outs)
        rr = self.expr(scope, depth - 1, outs) if self.p(0.35) else self.atom(scope, depth - 1, outs)
        if op in ("/", "%") and self.p(0.8) and self.focus != "C10":
            rr = f"({rr} | 1)"
        if op in ("<<", ">>") and self.p(0.7):
            rr = str(r.choice([0, 1, 3, 7, 31, 63, 64, 65]))
        return f"{l} {op} {rr}"

    def atom(self, scope, depth, outs):
        e = self.expr(scope, depth, outs)
        return e if re.fullmatch(r"\w+", e) else f"({e})"

    def comment_noise(self):
        if self.focus == "C19" or self.p(0.08):
            c = self.r.random()
            if c < 0.3:
                self.lines.append("")
            elif c < 0.5:
                self.lines.append("# " + self.r.choice(["note", "loop(i,2)", "end loop", "1 2 3"]))
            elif c < 0.6:
                self.lines.append("   \t")

    def row(self, cols, scope, outs):
        r = self.r
        ent = []
        nx = nc = 0
        skip = 0
        for ci, (kind, bits) in enumerate(cols):
            if skip:
                skip -= 1
                continue
            c = r.random()
            if (self.focus == "C01" and c < 0.12 or c < 0.03) and len(cols) - ci >= 2:
                # bits(k, e) fills k columns, most significant bit first
                k = r.randrange(2, min(4, len(cols) - ci) + 1)
                e = self.expr(scope, 1, outs)
                ent.append(f"bits({k}, {r.choice(['-', '~', ''])}{e if re.fullmatch(r'[0-9a-zA-Z_]+', e) else '(' + e + ')'})")
                skip = k - 1
                continue
            if kind == "in":
                clocky = self.focus in ("C05", "C02") or (self.exotic and self.focus == "C13")
                xprob = 0.35 if clocky else 0.08
                cprob = 0.3 if clocky else 0.06
                if c < xprob and nx < 3:
                    ent.append("X"); nx += 1
                elif c < xprob + cprob and nc < 2:
                    ent.append("C"); nc += 1
                elif c < xprob + cprob + 0.06:
                    ent.append("Z")
                elif c < 0.75:
                    ent.append(self.lit() if self.p(0.6) else str(r.randrange(0, 4)))
                else:
                    ent.append("(" + self.expr(scope, 2, outs) + ")")
            else:
                if self.c_anywhere and c < 0.07:
                    ent.append("C")
                elif c < 0.3:
                    ent.append("X")
                elif c < 0.36:
                    ent.append("Z")
                elif c < 0.75:
                    ent.append(self.lit() if self.p(0.5) else str(r.randrange(0, 8)))
                else:
                    ent.append("(" + self.expr(scope, 2, outs) + ")")
        self.rows_budget -= (1 << nx) * (3 if nc else 1)
        t = " ".join(ent)
        if self.focus == "C19" and self.p(0.3):
            t += "   # trailing"
        return t

    def block(self, cols, scope, outs, depth, fresh):
        r = self.r
        n = r.randrange(1, 4) if depth else r.randrange(3, 9)
        scope = list(scope)
        for _ in range(n):
            if self.rows_budget <= 0:
                break
            self.comment_noise()
            c = r.random()
            if c < 0.3 or depth >= 3:
                self.lines.append(self.row(cols, scope, outs))
            elif c < 0.5:
                v = r.choice(VARS)
                if depth == 0 and self.shadow and self.p(0.25):
                    v = r.choice(self.shadow)  # a variable named like an output-capable signal: variables win from here on (C04/C18)
                self.lines.append(f"let {v} = {self.expr(scope, 2, outs)};")
                if v not in scope:
                    scope.append(v)
            elif c < 0.7:
                v = r.choice(scope) if scope and self.p(0.3) else r.choice(VARS)
                bound = str(r.choice([0, 1, 2, 2, 3, 3])) if self.p(0.7) else f"({self.expr(scope, 1, [])}) & 3"
                if v in scope and self.p(0.6):
                    bound = r.choice([f"({v} & 3) + 1", f"({v} & 1) + 2", f"3 - ({v} & 1)"])
                self.lines.append(f"loop({v},{bound})")
                self.rows_budget //= 2
                self.block(cols, scope + ([v] if v not in scope else []), outs, depth + 1, fresh)
                self.lines.append("end loop")
            elif c < 0.8:
                bound = str(r.choice([0, 1, 2, 2, 3, 3])) if self.p(0.7) else f"({self.expr(scope, 1, [])}) & 3"
                self.rows_budget //= 2
                if "n" in scope and self.p(0.6):
                    bound = r.choice(["(n & 1) + 1", "(n & 1) + 2"])
                self.lines.append(f"repeat({bound}) " + self.row(cols, scope + ["n"], outs))
            elif c < 0.92:
                w = f"w{len(fresh)}"
                fresh.append(w)
                self.lines.append(f"let {w} = {r.choice([0, 1, 2, 2, 3])};")
                self.lines.append(f"while({w} > 0)")
                self.rows_budget //= 2
                # `while` opens no scope: what the body binds stays bound (only when the body ran - so the names it introduces
                # are not used after the loop: they stay out of `scope`)
                self.block(cols, scope + [w], outs, depth + 1, fresh)
                self.lines.append(f"let {w} = {w} - 1;")
                self.lines.append("end while")
            else:
                self.lines.append("resetRandom;")

    def scenario(self):
        r, f = self.r, self.focus
        widths = [1, 2, 4, 8, 16, 63, 64] if f in ("C07", "C05") else [1, 4, 8, 16, 64]
        sigs = []
        for nm in r.sample(["A", "B", "D", "E", "CLK"], r.randrange(1, 4)):
            d = r.choice(["0", "1", "5", "Z"]) if self.p(0.6) else "0"
            sigs.append(("in", nm, r.choice(widths), d))
        for nm in r.sample(["Y", "Q", "R", "W"], r.randrange(1, 4)):
            sigs.append(("out", nm, r.choice(widths), None))
        shared = None
        if self.exotic:
            wio = r.choice(widths)
            sigs.append(("bidir", "IO", wio, r.choice(["Z", "0", "3"])))
            if self.p(0.6):
                w2 = r.choice([w for w in widths if w != wio])
                sigs.append(("out", "IO_out", w2, None))
                shared = max(wio, w2)
            else:
                shared = 64
        elif self.p(0.35 if f == "C06" else 0.12):
            sigs.append(("bidir", "IO", r.choice(widths), r.choice(["Z", "0", "3"])))
        if f == "C06" or self.p(0.4):
            r.shuffle(sigs)
        out = [f"signal {k} {n} {b}" + (f" {d}" if d is not None else "") for k, n, b, d in sigs]
        # header
        ins = [s for s in sigs if s[0] == "in"]
        outs_ = [s for s in sigs if s[0] == "out"]
        cols = []
        keep_in = [s for s in ins if self.p(0.6 if f == "C06" else 0.85)] or ins[:1]
        for s in keep_in:
            cols.append((s[1], "in", s[2]))
        for s in outs_:
            if s[1] == "IO_out":
                continue
            if self.p(0.85):
                cols.append((s[1], "out", s[2]))
        for s in sigs:
            if s[0] == "bidir":
                if self.p(0.8):
                    cols.append((s[1], "in", s[2]))
                if shared is not None:
                    # one column, two signals of different width: literals as wide as the wider one
                    cols.append((s[1] + "_out", "out", shared))
                elif self.p(0.8):
                    cols.append((s[1] + "_out", "out", s[2]))
        ndecl = r.randrange(1, 3) if f == "C14" else (1 if self.p(0.1) else 0)
        outnames = [s[1] for s in sigs if s[0] in ("out", "bidir")]
        decls = []
        if self.exotic and not any(s[1] == "IO_out" for s in sigs):
            save, self.out_reads = self.out_reads, True
            decls.append(("IO_out", self.expr([], 2, [n for n in outnames if n != "IO_out"])))
            self.out_reads = save
        for k in range(ndecl):
            save, self.out_reads = self.out_reads, True
            decls.append((f"V{k + 1}", self.expr([], 2, outnames)))
            self.out_reads = save
            if self.p(0.8):
                cols.append((f"V{k + 1}", "out", 64))
        if f == "C06" or self.p(0.5):
            r.shuffle(cols)
        if not any(c[1] == "in" for c in cols):
            cols.insert(0, (ins[0][1], "in", ins[0][2]))
        # driver
        val = r.choice(["const 0", "const 5", "idx", "idx", "const 261", "const -1", "seq 1 2 z 3 x 4", "seq 0 7 7 0 9"])
        if f in ("C03", "C04", "C07") and self.p(0.5):
            val = r.choice(["idx", "const -1", "const 261", "seq 1 2 z 3 x 4", "const 9223372036854775807"])
        out.append("driver value " + val)
        if self.p(0.3):
            out.append("driver layout rev")
        if f == "C06" and self.exotic and self.p(0.5):
            # C06 speaks of "the previous input vector handed to the driver": that includes a vector whose call failed
            out.append(f"driver failat {r.randrange(2, 7)}")
            out.append("continue")
        if f == "C13" and self.exotic:
            # several failing calls (two in a row, or everything from some call on) around clocked rows
            n0 = r.randrange(1, 7)
            out.append(r.choice([f"driver failat {n0} {n0 + 1}", f"driver failfrom {n0}", f"driver failat {n0} {n0 + 2}", f"driver failat {n0} {n0 + 1} {n0 + 2}"]))
        elif f == "C13":
            c = r.random()
            if c < 0.5:
                out.append(f"driver deviate {r.choice(['swap', 'drop', 'dup', 'dupfirst'])} {r.randrange(1, 6)}")
            else:
                out.append(f"driver failat {r.randrange(1, 6)}")
        if f == "C02" or self.p(0.3):
            out.append("driver override_write")
        out.append("maxrows 48")
        if f in ("C18", "C01") or self.p(0.3):
            out.append("vars")
        if f == "C03" or self.p(0.3):
            out.append("verdicts")
        if f in ("C13", "C14", "C04", "C10") or self.p(0.3):
            out.append("continue")
        if f == "C10":
            out.append("static")
        if f == "C15":
            out.append("static")
            out.append("rerun")
        elif self.p(0.15):
            out.append("static")
        out.append("program")
        hdr = " ".join(c[0] for c in cols)
        if f == "C19":
            for _ in range(r.randrange(0, 3)):
                self.lines.append("")
        self.lines.append(hdr)
        for nm, e in decls:
            self.lines.append(f"declare {nm} = {e};")
        readable = outnames if self.out_reads else []
        if f in ("C04", "C15", "C18") or self.p(0.1):
            self.shadow = list(outnames)
        self.block([(c[1], c[2]) for c in cols], [], readable, 0, [])
        if not any(l and not l.startswith(("#", "let", "declare", "loop", "end", "while", "resetRandom")) and l != hdr for l in self.lines):
            self.lines.append(self.row([(c[1], c[2]) for c in cols], [], readable))
        if f == "C19" and self.exotic and self.p(0.6):
            # comments made of multi-byte characters in front of rows: a line is counted in line breaks, not in bytes or characters
            k = 0
            while k < len(self.lines):
                if self.lines[k] != hdr and self.p(0.35):
                    self.lines.insert(k, "# " + r.choice(["äöüÄÖÜßäöüÄÖÜßäöüÄÖÜß", "ЖЖЖЖЖЖЖЖЖЖЖЖЖЖЖЖЖЖЖЖ", "日本語日本語日本語日本語日本語", "😀😀😀😀😀😀😀😀"]) * r.randrange(1, 4))
                    k += 1
                k += 1
        nl = "\r\n" if f == "C19" and self.p(0.3) else "\n"
        if f == "C19" and self.exotic:
            # carriage returns that are not part of a CRLF pair are blank space (C20 lists them among the blanks), not line breaks
            nl = r.choice(["\r\r\n", " \r\n", "\r \n", "\t\r\r\n", "\r\r\r\n"])
        text = nl.join(self.lines) + (nl if self.p(0.8) else "")
        return "\n".join(out) + "\n" + text


def damage_program(rnd, scen):
    head, prog = scen.split("\nprogram\n", 1)
    toks = re.findall(r"\r?\n|[ \t]+|#[^\n]*|\w+|<<|>>|<=|>=|!=|.", prog)
    idx = [i for i, t in enumerate(toks) if t.strip() or "\n" in t]
    if not idx:
        return scen
    i = rnd.choice(idx)
    c = rnd.random()
    if c < 0.25:
        del toks[i]
    elif c < 0.4:
        toks.insert(i, toks[i])
    elif c < 0.55 and i + 2 < len(toks):
        j = next((k for k in idx if k > i), i)
        toks[i], toks[j] = toks[j], toks[i]
    elif c < 0.85:
        toks[i] = rnd.choice(TOKEN_POOL)
    elif c < 0.93:
        toks.insert(i, rnd.choice(TOKEN_POOL) + " ")
    else:
        toks = toks[:i]
    return head + "\nprogram\n" + "".join(toks)


def damage_overlong(rnd, scen):
    """C12: two neighbouring plain entries of a data row become ONE literal that does not fit in 64 bits (so the row is also
    one entry short): must be rejected whatever way the lexer cuts the digits"""
    head, prog = scen.split("\nprogram\n", 1)
    lines = prog.split("\n")
    cand = []
    for li, l in enumerate(lines[1:], 1):
        w = l.split(" ")
        for k in range(len(w) - 1):
            if re.fullmatch(r"[0-9][0-9a-fA-FxXb]*|[XZ]", w[k]) and re.fullmatch(r"[0-9][0-9a-fA-FxXb]*|[XZ]", w[k + 1]):
                cand.append((li, k))
    if not cand:
        return damage_program(rnd, scen)
    li, k = rnd.choice(cand)
    w = lines[li].split(" ")
    n = rnd.choice([1, 1, 2, 3])
    lit = rnd.choice([str(rnd.randrange(10 ** (19 + n), 10 ** (20 + n))), "0x" + "".join(rnd.choice("0123456789abcdefABCDEF") for _ in range(16 + n)),
                      "0b1" + "".join(rnd.choice("01") for _ in range(63 + n)), "07" + "".join(rnd.choice("01234567") for _ in range(21 + n))])
    w[k:k + 2] = [lit]
    lines[li] = " ".join(w)
    return head + "\nprogram\n" + "\n".join(lines)


def damage_signals(rnd, scen):
    lines = scen.split("\n")
    sig = [i for i, l in enumerate(lines) if l.startswith("signal ")]
    i = rnd.choice(sig)
    w = lines[i].split()
    c = rnd.random()
    if c < 0.25:
        del lines[i]
    elif c < 0.4:
        lines.insert(i, lines[i])
    elif c < 0.6:
        w[1] = {"in": "out", "out": "in", "bidir": rnd.choice(["in", "out"])}[w[1]]
        if w[1] == "out":
            w = w[:4]
        elif len(w) < 5:
            w.append("0")
        lines[i] = " ".join(w)
    elif c < 0.75:
        w[2] = rnd.choice([w[2] + "_out", w[2].lower(), "V1", "IO", "IO_out", w[2] + "2"])
        lines[i] = " ".join(w)
    elif c < 0.9:
        w[3] = rnd.choice(["0", "65", "64", "1", "128"])
        lines[i] = " ".join(w)
    else:
        j = rnd.choice(sig)
        lines[i] = lines[i].replace(" " + w[2] + " ", " " + lines[j].split()[2] + " ")
    return "\n".join(lines)


class Draws:
    """C17, oracle from the statement: `random` is drawn exactly once per evaluation of the expression it stands in, and
    `resetRandom` replays the sequence. A block with a control flow that does not depend on the drawn values is generated together
    with the number m of draws the statement prescribes for it; the program draws d1..d(m+1) first, resets, runs the block, draws z
    and yields the row `(z = d(m+1))`, which must be 1; every row inside the block is written to yield 1 as well."""
    K = "1000000"

    def __init__(self, rnd, wide=False):
        self.r = rnd
        self.lines = []
        self.nrows = 0
        self.tmp = 0
        # wide: two further one-bit columns, so that a row can hold `bits(2, e)` - one evaluation of e, hence one draw per random in it
        self.wide = wide

    def row(self, e):
        if self.wide and self.r.random() < 0.4:
            return f"1 bits(2, ((({e}) & 0) + 2))"
        return f"((({e}) & 0) + 1)" + (" 0 0" if self.wide else "")

    def rx(self):
        return f"random({self.K})"

    def expr(self, depth=2):
        """returns (text, draws)"""
        r = self.r
        c = r.random()
        if depth <= 0 or c < 0.25:
            return (self.rx(), 1) if r.random() < 0.7 else (str(r.randrange(0, 9)), 0)
        a, na = self.expr(depth - 1)
        b, nb = self.expr(depth - 1)
        if c < 0.45:
            return f"({a} {r.choice(['+', '-', '*', '^', '<', '='])} {b})", na + nb
        if c < 0.6:
            # both operands of & and | are evaluated, whatever the left one is
            return (f"(0 & {b})", nb) if r.random() < 0.5 else (f"(1 | {b})", nb) if r.random() < 0.5 else (f"({a} & {b})", na + nb)
        if c < 0.8:
            sel = r.choice([0, 1, 5])
            cnd, nc = (str(sel), 0) if r.random() < 0.6 else (f"({self.rx()} >= 0)", 1)
            if nc:
                sel = 1
            # only the selected branch is evaluated
            return f"ite({cnd}, {a}, {b})", nc + (na if sel else nb)
        if c < 0.9:
            return f"{r.choice(['-', '~', '!', '!!', '-~'])}{a if a.startswith('(') or a.isdigit() else '(' + a + ')'}", na
        return f"(({a}) >> 64)", na

    def block(self, depth, mult):
        """emits statements; returns draws per execution of the block"""
        r = self.r
        total = 0
        for _ in range(r.randrange(1, 4)):
            c = r.random()
            self.tmp += 1
            t = f"t{self.tmp}"
            if c < 0.4 or depth >= 2:
                e, n = self.expr()
                self.lines.append(f"let {t} = {e};")
                total += n
            elif c < 0.55:
                e, n = self.expr(1)
                self.lines.append(self.row(e))
                self.nrows += mult
                total += n
            elif c < 0.75:
                m = r.randrange(0, 4)
                be, bn = (str(m), 0) if r.random() < 0.6 else (f"(({self.rx()} & 0) + {m})", 1)
                self.lines.append(f"loop(i{self.tmp},{be})")
                inner = self.block(depth + 1, mult * m)
                self.lines.append("end loop")
                total += bn + m * inner   # the bound is evaluated once
            elif c < 0.85:
                m = r.randrange(0, 4)
                e, n = self.expr(1)
                self.lines.append(f"repeat({m}) " + self.row(e))
                self.nrows += mult * m
                total += m * n
            else:
                m = r.randrange(0, 3)
                w = f"w{self.tmp}"
                self.lines.append(f"let {w} = {m};")
                rc = r.random() < 0.6
                self.lines.append(f"while(({self.rx()} >= 0) & ({w} > 0))" if rc else f"while({w} > 0)")
                inner = self.block(depth + 1, mult * m)
                self.lines.append(f"let {w} = {w} - 1;")
                self.lines.append("end while")
                total += (m + 1 if rc else 0) + m * inner   # the condition is evaluated once per test: m times true, once false
        return total

    def scenario(self):
        m = self.block(0, 1)
        pre = [f"let d{k} = {self.rx()};" for k in range(1, m + 2)]
        pad = " 0 0" if self.wide else ""
        prog = ["A B D" if self.wide else "A"] + pre + ["resetRandom;"] + self.lines + [f"let z = {self.rx()};", f"(z = d{m + 1})" + pad]
        # a second reset replays from the start again
        prog += ["resetRandom;", f"let y = {self.rx()};", "(y = d1)" + pad]
        self.nrows += 2
        sig = "signal in A 8 0\n" + ("signal in B 1 0\nsignal in D 1 0\n" if self.wide else "")
        return sig + "maxrows 400\nprogram\n" + "\n".join(prog) + "\n", self.nrows


def many_x(rnd):
    """C10: a row with very many don't-care inputs (2^k rows, produced lazily): the first few rows must come without a panic"""
    n = rnd.choice([20, 31, 32, 33, 57, 58, 60, 63, 64, 65, 70])
    nc = rnd.choice([0, 0, 1])
    out = [f"signal in I{i} 1 0" for i in range(n)] + ["signal in CLK 1 0", "signal out Y 4", "driver value idx", "maxrows 7", "continue"]
    if rnd.random() < 0.5:
        out.append("static")
    hdr = " ".join(f"I{i}" for i in range(n)) + " CLK Y"
    row = " ".join(["X"] * n) + (" C" if nc else " 0") + " X"
    pre = rnd.choice(["", "let a = 1;\n", "loop(i,2)\n"])
    post = "end loop\n" if pre.startswith("loop") else ""
    return "\n".join(out) + "\nprogram\n" + hdr + "\n" + pre + row + "\n" + post


def generate(focus, n=None):
    base = SIZE.get(focus, PER_FOCUS)
    n = n or base + EXTRA.get(focus, 0)
    cases = []
    for k in range(n):
        rnd = random.Random(f"{focus}/{k}")
        if k >= base + 40 and focus == "C10":
            # C / bits entries anywhere in the row: whatever binds must run without a panic (C10 / C11)
            cases.append(Gen(rnd, "C01", exotic=rnd.random() < 0.3, c_anywhere=True).scenario().replace("\nprogram\n", "\nstatic\ncontinue\nprogram\n", 1))
            continue
        if k >= base and focus == "C10":
            cases.append(many_x(rnd))
            continue
        if k >= base and focus == "C12":
            cases.append(damage_overlong(rnd, Gen(rnd, rnd.choice(["C08", "C01", "C05", "C07"])).scenario()))
            continue
        if k >= base and focus == "C11":
            sc = Gen(rnd, rnd.choice(["C06", "C14", "C05"]), exotic=rnd.random() < 0.5, c_anywhere=True).scenario()
            if k >= base + 300:
                # a signal of ANY direction that carries the name of a declared virtual signal (C11: names are distinct, also from those)
                sc = Gen(rnd, "C14").scenario()
                lines = sc.split("\n")
                sig = [i for i, l in enumerate(lines) if l.startswith("signal ")]
                kind = rnd.choice(["in", "in", "bidir", "out"])
                lines.insert(rnd.choice(sig + [sig[-1] + 1]), f"signal {kind} V1 {rnd.choice([1, 4, 64])}" + ("" if kind == "out" else " 0"))
                sc = "\n".join(lines)
            cases.append(sc)
            continue
        if k >= base and focus != "C17":
            cases.append(Gen(rnd, focus, exotic=True).scenario())
            continue
        if focus == "C17":
            cases.append(Draws(rnd, wide=k >= base).scenario())
        elif focus == "C12":
            cases.append(damage_program(rnd, Gen(rnd, rnd.choice(["C08", "C01", "C05", "C14", "C19"])).scenario()))
        elif focus == "C11":
            cases.append(damage_signals(rnd, Gen(rnd, rnd.choice(["C06", "C14", "C04"])).scenario()))
        else:
            cases.append(Gen(rnd, focus).scenario())
    return cases


def changed_rule(scenario, o):
    """C06: an input entry that is not flagged carries the value it had in the previous vector handed to the driver; an input the
    header omits is never flagged after the construction-time vector (the flags themselves are not compared with a recording)"""
    bad = []
    prog = scenario.split("\nprogram\n", 1)[-1]
    header = next((l.split() for l in prog.replace("\r", "").split("\n") if l.strip()), [])
    prev = None
    for c in o.get("calls") or []:
        m = re.search(r"\[(.*?)\]", c)
        v = {}
        for e in (m.group(1).split() if m else []):
            if "=" in e:
                k, x = e.split("=", 1)
                v[k] = (x.rstrip("*"), x.endswith("*"))
        for k, (val, flag) in v.items():
            if prev is not None and not flag and k in prev and prev[k][0] != val:
                bad.append(f"input {k}={val} is not flagged as changed but was {prev[k][0]} in the previous vector ({c})")
            if prev is not None and flag and k not in header:
                bad.append(f"input {k} is omitted from the header but flagged as changed ({c})")
        prev = v
    return bad


def driver_rules(scenario, calls, rows):
    """Oracles taken from the statements alone (nothing recorded), evaluated on the whole run, also behind error items.
    C13: every error the driver returned from a call reaches the caller as a driver-error item, in call order, carrying that
    very value (the replay driver's error value is the number of the failing call).
    C02: every driver call is accounted for by the constructor, a yielded row or an error item:
    1 + rows + driver-error items <= calls <= 1 + rows + all error items."""
    if not isinstance(calls, list) or not isinstance(rows, list) or not calls:
        return []
    head = scenario.split("\nprogram\n", 1)[0].split("\n")
    failat, failfrom = [], None
    for l in head:
        w = l.split()
        if w[:2] == ["driver", "failat"]:
            failat = [int(x) for x in w[2:]]
        if w[:2] == ["driver", "failfrom"]:
            failfrom = int(w[2])
    bad = []
    rows = [r_ for r_ in rows if r_ != "..."]
    made = len(calls)
    failing = [k for k in range(2, made + 1) if k in failat or (failfrom is not None and k >= failfrom)]
    seen = [int(m.group(1)) for r_ in rows for m in [re.match(r"ERR Driver\(DrvErr\((\d+)\)\)", r_)] if m]
    if 1 in failat or failfrom == 1:
        return []
    if seen != failing:
        bad.append(f"the driver returned an error from calls {failing} but the caller was given the driver errors {seen} (calls made: {made})")
    # C02, without looking at the wording of (crate-private) error kinds: every yielded row and every driver-error item stands for
    # exactly one call, every other error item for at most one (an evaluation error precedes the call, a layout error follows it)
    ok_rows = sum(1 for r_ in rows if not r_.startswith("ERR"))
    drv = sum(1 for r_ in rows if r_.startswith("ERR Driver("))
    errs = sum(1 for r_ in rows if r_.startswith("ERR"))
    if not (1 + ok_rows + drv <= made <= 1 + ok_rows + errs):
        bad.append(f"{made} driver calls (constructor included) for {ok_rows} rows, {drv} driver-error items and {errs - drv} other error items")
    return bad


ROW_RE = re.compile(r"^line (\d+) in \[(.*?)\] out \[(.*?)\](?: pass \[(.*?)\] fail \[(.*?)\] unchecked \[(.*?)\])?$")


def row_rules(scenario, calls, rows, signals):
    """More oracles taken from the statements alone and evaluated on every row of the run (nothing recorded):
    C06: `inputs` has one entry per input-capable signal in signal-list order, `outputs` of a checked row one per
         output-capable or virtual signal in signal-list order;
    C07: a numeric input / expected value on a signal of width w < 64 lies in 0 .. 2^w - 1;
    C03: an entry passes iff its expectation is X, or Z with output Z, or both are equal numbers; unchecked iff expectation X;
         failing_outputs() = the entries that do not pass (the replay prints all three lists);
    C02: as long as no error item has occurred, the k-th yielded row is the (k+1)-th driver call, input list identical (values);
         a row with empty `outputs` went out with the write-only call where the driver tells the two apart."""
    if not isinstance(rows, list) or not isinstance(calls, list):
        return []
    head = scenario.split("\nprogram\n", 1)[0].split("\n")
    sigs = {}
    order = []
    for l in head:
        w = l.split()
        if w[:1] == ["signal"] and len(w) >= 4:
            sigs[w[2]] = (w[1], int(w[3]), w[4] if len(w) > 4 else None)
            order.append(w[2])
    override = any(l.strip() == "driver override_write" for l in head)
    if isinstance(signals, str):
        bound = signals.split()
        virt = [n for n in bound if n not in sigs]
    else:
        bound, virt = order, []
    ins = [n for n in bound if n in sigs and sigs[n][0] in ("in", "bidir")]
    outs = [n for n in bound if (n in sigs and sigs[n][0] in ("out", "bidir")) or n in virt]
    bad = []

    def num(x):
        try:
            return int(x)
        except ValueError:
            return None
    k = 0
    clean = True
    for r_ in rows:
        if r_ == "...":
            continue
        if r_.startswith("ERR"):
            clean = False
            continue
        m = ROW_RE.match(r_)
        if not m:
            continue
        k += 1
        ivals = [e.rstrip("*").split("=", 1) for e in m.group(2).split()]
        ovals = [e.split("=", 1) for e in m.group(3).split()]
        if [n for n, _ in ivals] != ins:
            bad.append(f"C06: inputs of a row are {[n for n, _ in ivals]}, the input-capable signals in list order are {ins} ({r_[:80]})")
        if ovals and [n for n, _ in ovals] != outs:
            bad.append(f"C06: outputs of a checked row are {[n for n, _ in ovals]}, the output-capable and virtual signals in list order are {outs}")
        for n, v in ivals:
            x = num(v)
            wd = sigs.get(n, ("", 64))[1]
            # (a default comes from the caller's signal list, not from the program: C07 does not speak about it)
            if x is not None and wd < 64 and not (0 <= x < (1 << wd)) and v != sigs.get(n, ("", 64, None))[2]:
                bad.append(f"C07: input {n}={v} is not reduced to the {wd} bits of the signal")
        passed, failed, unchecked = [], [], []
        for n, oe in ovals:
            o, e = oe.rsplit("/", 1) if "/" in oe else (oe, "X")
            x = num(e)
            wd = sigs.get(n, ("", 64))[1]
            if x is not None and wd < 64 and not (0 <= x < (1 << wd)):
                bad.append(f"C07: expected value {n}={e} is not reduced to the {wd} bits of the signal")
            ok = e == "X" or (e == "Z" and o == "Z") or (x is not None and num(o) == x)
            (passed if ok else failed).append(n)
            if e == "X":
                unchecked.append(n)
        if m.group(4) is not None:
            if m.group(4).split() != passed or m.group(5).split() != failed or m.group(6).split() != unchecked:
                bad.append(f"C03: verdicts pass {m.group(4).split()} fail {m.group(5).split()} unchecked {m.group(6).split()} - by the X/Z rules "
                           f"pass {passed} fail {failed} unchecked {unchecked} ({r_[:100]})")
        if clean and k < len(calls):
            cm = re.match(r"([RW])\[(.*)\]$", calls[k])
            if cm:
                cvals = [e.rstrip("*").split("=", 1) for e in cm.group(2).split()]
                if cvals != ivals:
                    bad.append(f"C02: row {k} carries the inputs {m.group(2)!r} but driver call {k + 1} was {calls[k]!r}")
                if override and ((cm.group(1) == "W") != (not ovals)) and outs:
                    bad.append(f"C02: row {k} has {'no' if not ovals else 'its'} outputs but went out with call {calls[k][:1]}")
    return bad


KEEP = ("stage", "outcome", "nrows", "rows", "calls", "vars", "static", "dynproj", "signals", "spans_valid",
        "reparse_equal", "rerun_same", "interleaved_same")


def norm(o):
    """the observables that are compared"""
    d = {}
    for k in KEEP:
        if k in o:
            v = o[k]
            if k in ("rows", "calls", "static", "dynproj") and isinstance(v, list):
                v = ["ERR" if x.startswith("ERR") else re.sub(r"(=[^ \]\*]+)\*", r"\1", x) for x in v]
            d[k] = v
    return d


def cut(d):
    """Where execution resumes after an error item is not fixed by the statements (C10 only promises that iterating on is safe):
    a case is compared up to and including its first error item."""
    rows = d.get("rows")
    if isinstance(rows, list) and "ERR" in rows:
        e = rows.index("ERR")
        d = {k: v for k, v in d.items() if k not in ("calls", "nrows", "static", "dynproj", "reparse_equal", "rerun_same", "interleaved_same", "outcome")}
        d["rows"] = rows[:e + 1]
        if isinstance(d.get("vars"), list):
            d["vars"] = d["vars"][:e + 1]
    return d


def run_cases(cases, tag):
    work = os.path.join(VERIF, "build", "gridcases", f"{tag}-{os.getpid()}")
    os.makedirs(work, exist_ok=True)
    paths = []
    for i, c in enumerate(cases):
        p = os.path.join(work, f"{i}.scn")
        with open(p, "w", newline="") as f:
            f.write(c)
        paths.append(p)
    res = {}
    for prof in ("release", "debug"):
        exe = os.path.join(run_scenario.TARGET, prof, "verif_replay")
        outs = []
        for k in range(0, len(paths), 250):
            chunk = paths[k:k + 250]
            try:
                p = subprocess.run([exe, "--batch"] + chunk, capture_output=True, text=True, timeout=300)
                lines = [l for l in p.stdout.split("\n") if l.startswith("{")]
            except subprocess.TimeoutExpired:
                lines = []
            if len(lines) != len(chunk):
                # a scenario killed the process (abort, stack overflow) or hung: run this chunk one by one
                lines = []
                for q in chunk:
                    try:
                        pp = subprocess.run([exe, q], capture_output=True, text=True, timeout=20)
                        l = [x for x in pp.stdout.split("\n") if x.startswith("{")]
                        lines.append(l[-1] if l else json.dumps(dict(stage="?", outcome="crash", rc=pp.returncode)))
                    except subprocess.TimeoutExpired:
                        lines.append(json.dumps(dict(stage="run", outcome="timeout")))
            for l in lines:
                try:
                    raw = json.loads(l)
                    d = norm(raw)
                    d["_raw_calls"] = raw.get("calls")
                    d["_raw_rows"] = (raw.get("rows") or []) + (["ERR " + str(raw.get("message"))] if raw.get("outcome") == "error-item" and not any(
                        str(x).startswith("ERR") for x in (raw.get("rows") or [])) else []) if isinstance(raw.get("rows"), list) else raw.get("rows")
                    outs.append(d)
                except Exception:
                    outs.append(dict(stage="?", outcome="garbled"))
        res[prof] = outs
    import shutil
    shutil.rmtree(work, ignore_errors=True)
    return res


def record():
    run_scenario.build()
    os.makedirs(GRID, exist_ok=True)
    for f in FOCI:
        cases = generate(f)
        if f == "C17":
            with gz_write(os.path.join(GRID, f + ".jsonl.gz")) as g:
                for scen, nrows in cases:
                    g.write(json.dumps(dict(scenario=scen, expect=dict(c17_nrows=nrows))) + "\n")
            n, fails = check("C17")
            print(f, "stored", n, "; on this tree", len(fails), "contradict the statement", [b[2][0][:200] for b in fails[:3]])
            continue
        res = run_cases(cases, f)
        kept, dropped = [], 0
        for c, a, b in zip(cases, res["release"], res["debug"]):
            ra = a.pop("_raw_calls", None)
            b.pop("_raw_calls", None)
            rr = a.pop("_raw_rows", None)
            b.pop("_raw_rows", None)
            if driver_rules(c, ra, rr):
                print("  the tree being recorded breaks a driver rule:", f, driver_rules(c, ra, rr)[:1])
            if row_rules(c, ra, rr, a.get("signals")):
                print("  the tree being recorded breaks a row rule:", f, row_rules(c, ra, rr, a.get("signals"))[:1])
            if changed_rule(c, dict(calls=ra)):
                print("  the tree being recorded breaks the `changed` rule:", f, changed_rule(c, dict(calls=ra))[:1])
            # a case on which the two build profiles disagree, or that panics / hangs, is no reference for anything
            if a != b or a.get("outcome") in ("panic", "timeout", "crash", "garbled"):
                dropped += 1
                print("  not recorded:", f, a.get("outcome"), b.get("outcome"))
                continue
            kept.append(dict(scenario=c, expect=a))
        with gz_write(os.path.join(GRID, f + ".jsonl.gz")) as g:
            for k in kept:
                g.write(json.dumps(k) + "\n")
        st = {}
        for k in kept:
            key = f"{k['expect'].get('stage')}/{k['expect'].get('outcome')}"
            st[key] = st.get(key, 0) + 1
        print(f, "recorded", len(kept), "dropped", dropped, st)


import contextlib


@contextlib.contextmanager
def gz_write(path):
    """deterministic gzip (no time stamp, no file name): re-recording an unchanged pool leaves the file byte-identical"""
    import io
    with open(path, "wb") as raw:
        z = gzip.GzipFile(filename="", mode="wb", fileobj=raw, mtime=0)
        t = io.TextIOWrapper(z, encoding="utf-8")
        yield t
        t.flush()
        z.close()


def load(focus):
    p = os.path.join(GRID, focus + ".jsonl.gz")
    if not os.path.exists(p):
        return []
    with gzip.open(p, "rt") as g:
        return [json.loads(l) for l in g if l.strip()]


def check(focus):
    """returns (n_cases, [(index, scenario text, mismatches, observed)])"""
    pool = POOL_OF.get(focus, focus)
    cases = load(pool)
    if not cases:
        return 0, []
    res = run_cases([c["scenario"] for c in cases], focus)
    if focus == "C17":
        fails = []
        for i, c in enumerate(cases):
            bad = []
            for prof in ("release", "debug"):
                o = res[prof][i] if i < len(res[prof]) else dict(outcome="missing")
                rows = o.get("rows") or []
                if o.get("outcome") != "ok":
                    bad.append(f"{prof}: outcome {o.get('outcome')}")
                elif len(rows) != c["expect"]["c17_nrows"] or any(not re.search(r"\[A=1[ \]]", r_) for r_ in rows):
                    wrong = [r_ for r_ in rows if not re.search(r"\[A=1[ \]]", r_)][:2]
                    bad.append(f"{prof}: the draw after the block is not draw number m+1 of the replayed sequence, or a row is missing "
                               f"({len(rows)} rows, {c['expect']['c17_nrows']} prescribed; rows that are not 1: {wrong})")
            if bad:
                fails.append((i, c["scenario"], bad, {p: (res[p][i] if i < len(res[p]) else None) for p in res}))
        return len(cases), fails
    if focus in ("C09", "C10"):
        # oracle from the statement alone
        fails = []
        for i, c in enumerate(cases):
            bad = []
            for prof in ("release", "debug"):
                o = res[prof][i] if i < len(res[prof]) else dict(outcome="missing")
                if o.get("outcome") in ("panic", "timeout", "crash", "garbled", "missing"):
                    bad.append(f"{prof}: outcome {o.get('outcome')} (stage {o.get('stage')})")
                if focus == "C09" and o.get("spans_valid") is False:
                    bad.append(f"{prof}: a parse error is located outside the text or off a character boundary")
            if bad:
                fails.append((i, c["scenario"], bad, {p: (res[p][i] if i < len(res[p]) else None) for p in res}))
        return len(cases), fails
    fails = []
    for i, c in enumerate(cases):
        bad = []
        for prof in ("release", "debug"):
            o = res[prof][i] if i < len(res[prof]) else dict(outcome="missing")
            raw_calls = o.pop("_raw_calls", None)
            raw_rows = o.pop("_raw_rows", None)
            bad += [f"{prof}: {b}" for b in changed_rule(c["scenario"], dict(calls=raw_calls))[:2]]
            bad += [f"{prof}: {b}" for b in driver_rules(c["scenario"], raw_calls, raw_rows)[:2]]
            bad += [f"{prof}: {b}" for b in row_rules(c["scenario"], raw_calls, raw_rows, o.get("signals"))[:2]]
            o, ex = cut(o), cut(dict(c["expect"]))
            if focus in VERDICT_ONLY:
                o = {k: o.get(k) for k in VERDICT_ONLY[focus]}
                ex = {k: ex.get(k) for k in VERDICT_ONLY[focus]}
            if o != ex:
                ks = [k for k in set(o) | set(ex) if o.get(k) != ex.get(k)]
                bad.append(f"{prof}: differs from the recorded behaviour in {sorted(ks)}: " +
                           "; ".join(f"{k}: now {json.dumps(o.get(k))[:300]} recorded {json.dumps(ex.get(k))[:300]}" for k in sorted(ks)[:3]))
        if bad:
            fails.append((i, c["scenario"], bad, {p: (res[p][i] if i < len(res[p]) else None) for p in res}))
    return len(cases), fails


if __name__ == "__main__":
    cmd = sys.argv[1] if len(sys.argv) > 1 else "check"
    if cmd == "record":
        record()
    elif cmd == "show":
        c = load(sys.argv[2])[int(sys.argv[3])]
        print(c["scenario"])
        print(json.dumps(c["expect"], indent=1))
    else:
        run_scenario.build()
        rc = 0
        for f in (sys.argv[2:] or FOCI):
            n, fails = check(f)
            print(f, n, "cases,", len(fails), "differ")
            for i, s, bad, o in fails[:3]:
                print("   case", i, bad[0][:400])
                rc = 1
        sys.exit(rc)
