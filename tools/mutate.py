#!/usr/bin/env python3
"""mutate.py - mutation analysis of the contracts (a development tool, not one of the registered checks).

Small syntactic edits (relational / arithmetic / logical operator swaps, off-by-one literals, a dropped `!`, a deleted
statement) are applied one at a time to the non-test source of a COPY of the repository. A mutant that still compiles and
passes the crate's own tests is then shown to the machinery: Verus on the units that hold the mutated function, and, if
that does not report a failed obligation, the bounded layer of the properties that own the function. What survives
everything is either an equivalent mutant or a hole in the contracts - the list is triaged by hand (DESIGN 12.2).

usage (inside a `vp run --with-repo` snapshot, or with an explicit scratch root):
    tools/mutate.py drive <scratch-root> <workers>     copy the verif snapshot and the repo <workers> times, run the workers, merge
    tools/mutate.py worker <i> <n>                     (internal) handle mutants i, i+n, .. ; VERIF_REPO names this worker's repo
    tools/mutate.py list                               print the mutants that would be generated
"""
import json
import os
import re
import shutil
import subprocess
import sys
import time

HERE = os.path.dirname(os.path.abspath(__file__))
VERIF = os.path.dirname(HERE)
sys.path.insert(0, HERE)

FILES = ["src/data_row_iterator.rs", "src/stmt.rs", "src/expr.rs", "src/eval_context.rs", "src/framed_map.rs", "src/value.rs",
         "src/parsed_test_case.rs", "src/parser/mod.rs", "src/parser/expr.rs", "src/parser/stmt.rs", "src/parser/binoptree.rs",
         "src/static_test.rs", "src/lib.rs", "src/dig.rs", "src/lexer/mod.rs"]

OPS = [
    (r" <= ", " < "), (r" < ", " <= "), (r" >= ", " > "), (r" > ", " >= "), (r" == ", " != "), (r" != ", " == "),
    (r" && ", " || "), (r" \|\| ", " && "), (r" \+ ", " - "), (r" - ", " + "), (r" \+= ", " -= "), (r" -= ", " += "),
    (r"\btrue\b", "false"), (r"\bfalse\b", "true"),
    (r"\b0\b", "1"), (r"\b1\b", "0"), (r"\b1\b", "2"), (r"\b64\b", "63"), (r"\b64\b", "65"), (r"\b2\b", "3"),
    (r"if !", "if "), (r"\(!", "("), (r"&& !", "&& "),
    (r"\.rev\(\)", ""), (r"\.is_some\(\)", ".is_none()"), (r"\.is_none\(\)", ".is_some()"),
    (r"\.is_input\(\)", ".is_output()"), (r"\.is_output\(\)", ".is_input()"),
    (r"wrapping_add", "wrapping_sub"), (r"wrapping_sub", "wrapping_add"), (r"wrapping_shl", "wrapping_shr"), (r"wrapping_shr", "wrapping_shl"),
    (r"\.last\(\)", ".first()"), (r"\.push_frame\(\)", ".pop_frame()"),
    (r"Number\(0\)", "Number(1)"), (r"Number\(1\)", "Number(0)"),
    (r"InputValue::Z", "InputValue::Value(0)"), (r"ExpectedValue::X", "ExpectedValue::Z"), (r"OutputValue::X", "OutputValue::Z"),
    (r"\bcontinue;", "break;"), (r"\bbreak;", "continue;"),
]
DELETE = re.compile(r"^\s*(self\.[\w\.]+\([^;]*\);|ctx\.[\w\.]+\([^;]*\);|[\w\.]+\.(push|insert|pop_frame|push_frame|set|skip|truncate|swap_vars)\([^;]*\);)\s*$")


def code_lines(path):
    """(lineno, text) of lines that are product code: before the first #[cfg(test)], outside fmt functions, not comments/attributes"""
    out = []
    in_fmt = 0
    for i, l in enumerate(open(path).read().split("\n"), 1):
        if "#[cfg(test)]" in l:
            break
        s = l.strip()
        if re.search(r"\bfn fmt\b", l):
            in_fmt = 1
        if in_fmt:
            in_fmt += l.count("{") - l.count("}")
            if in_fmt <= 1 and "}" in l and not re.search(r"\bfn fmt\b", l):
                in_fmt = 0
            continue
        if not s or s.startswith(("//", "#[", "#!", "use ", "pub use", "mod ", "pub mod")) or s.startswith(("///", "//!")):
            continue
        if "unreachable!" in s or "expect(\"" in s or "todo!" in s:
            continue
        out.append((i, l))
    return out


def strip_strings(l):
    return re.sub(r'"(\\.|[^"\\])*"', lambda m: '"' + "_" * (len(m.group(0)) - 2) + '"', l.split("//")[0] if "//" in l and '"' not in l else l)


def mutants(repo):
    ms = []
    for f in FILES:
        p = os.path.join(repo, f)
        if not os.path.exists(p):
            continue
        for ln, l in code_lines(p):
            bare = strip_strings(l)
            for pat, rep in OPS:
                for m in re.finditer(pat, bare):
                    new = l[:m.start()] + rep + l[m.end():]
                    if new != l:
                        ms.append(dict(file=f, line=ln, old=l, new=new, op=f"{pat} -> {rep}"))
            if DELETE.match(l):
                ms.append(dict(file=f, line=ln, old=l, new="", op="delete statement"))
    # stable order, at most 3 mutants per line
    seen, out = {}, []
    for m in ms:
        k = (m["file"], m["line"])
        seen[k] = seen.get(k, 0) + 1
        if seen[k] <= 3:
            out.append(m)
    for i, m in enumerate(out):
        m["id"] = i
    return out


def sh(cmd, cwd, env=None, timeout=600):
    try:
        p = subprocess.run(cmd, cwd=cwd, env=env, capture_output=True, text=True, timeout=timeout)
        return p.returncode, p.stdout + p.stderr
    except subprocess.TimeoutExpired:
        return 124, "timeout"


def fn_index():
    """[(unit, file, lo, hi, fn-id)] from the unit files generated on the clean repo"""
    import vx
    idx = []
    for t in sorted(os.listdir(os.path.join(VERIF, "units"))):
        if not t.endswith(".rs"):
            continue
        unit = t[:-3]
        try:
            p, st = vx.write_unit(unit, os.path.join(VERIF, "build"), canary=False)
        except Exception as e:
            print("unit", unit, "does not generate on the clean repo:", e)
            continue
        for f in st.functions:
            if f.get("mode") == "fn":
                idx.append((unit, f["file"], f["lines"][0], f["lines"][1], f["id"]))
    return idx


def worker(i, n):
    import check
    import vx
    import scenarios
    import run_scenario
    repo = os.environ["VERIF_REPO"]
    env = dict(os.environ, CARGO_NET_OFFLINE="true")
    props = json.load(open(os.path.join(VERIF, "contracts", "properties.json")))
    idx = fn_index()
    ms = mutants(repo)
    os.makedirs(os.path.join(VERIF, "out"), exist_ok=True)
    out = open(os.path.join(VERIF, "out", f"mutants-{i}.jsonl"), "w")
    for m in ms:
        if m["id"] % n != i:
            continue
        path = os.path.join(repo, m["file"])
        orig = open(path).read()
        lines = orig.split("\n")
        assert lines[m["line"] - 1] == m["old"]
        lines[m["line"] - 1] = m["new"]
        open(path, "w").write("\n".join(lines))
        t0 = time.time()
        res = dict(m)
        try:
            rc, o = sh(["cargo", "build", "--offline", "--lib", "-q"], repo, env)
            if rc != 0:
                res["killed"] = "compile"
                continue
            rc, o = sh(["cargo", "test", "--offline", "--lib", "-q"], repo, env, timeout=300)
            if rc != 0:
                res["killed"] = "tests"
                continue
            rc, o = sh(["cargo", "test", "--offline", "--test", "74779", "-q"], repo, env, timeout=300)
            if rc != 0:
                res["killed"] = "tests"
                continue
            cover = [(u, fid) for (u, f, lo, hi, fid) in idx if f == m["file"] and lo <= m["line"] <= hi]
            res["covered_by"] = sorted(set(fid for _, fid in cover))
            verdict = []
            for unit in sorted(set(u for u, _ in cover)):
                try:
                    vx._src_cache.clear()   # the source text has just been changed under the extractor
                    rs, st = vx.write_unit(unit, os.path.join(VERIF, "build"), canary=False)
                except vx.LostAnchor as e:
                    verdict.append((unit, "undecided", "lost-anchor " + str(e)[:120]))
                    continue
                r = check.run_verus(rs, None, None)
                vr = (r.get("result") or {}).get("verification-results") or {}
                msgs = [d.get("message", "") for d in r.get("diags", []) if d.get("level") == "error" and not d.get("message", "").startswith("aborting")]
                ver = [x for x in msgs if check.classify(x) not in (None, "ignore") or (vr.get("errors", 0) > 0 and not vr.get("encountered-vir-error") and "rlimit" not in x.lower())]
                if vr.get("encountered-vir-error") or (not vr and msgs):
                    verdict.append((unit, "undecided", (msgs or ["?"])[0][:160]))
                elif vr.get("errors", 0) > 0 and ver:
                    verdict.append((unit, "violation", ver[0][:160]))
                elif vr.get("errors", 0) == 0 and vr:
                    verdict.append((unit, "pass", ""))
                else:
                    verdict.append((unit, "undecided", (msgs or ["?"])[0][:160]))
            res["verus"] = verdict
            if any(v[1] == "violation" for v in verdict):
                res["killed"] = "verus"
                continue
            # bounded layer of the properties that own one of the covering functions (or, if none covers the line, of all that name the file's units)
            fids = set(fid for _, fid in cover)
            units = set(u for u, _ in cover)
            ps = [p for p, s in props.items() if fids & set(s.get("fns", []))] or [p for p, s in props.items() if units & set(s.get("units", []))]
            if not cover:
                ps = {"src/dig.rs": ["C16"], "src/lexer/mod.rs": ["C09", "C12", "C19"], "src/lib.rs": ["C03", "C16", "C02"]}.get(m["file"], ["C10"])
            bfail = []
            for p in sorted(ps):
                try:
                    nrun, fails = scenarios.run_property(p)
                except Exception as e:
                    fails = [("?", [f"bounded layer did not run: {e}"], {})]
                if fails:
                    bfail.append((p, len(fails), str(fails[0][1][:1])[:200]))
            res["bounded"] = bfail
            res["bounded_props"] = sorted(ps)
            res["killed"] = "bounded" if bfail else None
        finally:
            open(path, "w").write(orig)
            res["secs"] = round(time.time() - t0, 1)
            out.write(json.dumps(res) + "\n")
            out.flush()
    out.close()


def drive(root, n):
    repo0 = os.environ.get("VP_RUN_REPO") or os.environ["VERIF_REPO"]
    procs = []
    for i in range(n):
        w = os.path.join(root, f"w{i}")
        shutil.rmtree(w, ignore_errors=True)
        os.makedirs(w)
        subprocess.run(["cp", "-r", VERIF, os.path.join(w, "verif")], check=True)
        subprocess.run(["rsync", "-a", "--exclude", "target", "--exclude", ".git", repo0 + "/", os.path.join(w, "repo") + "/"], check=True)
        wv, wr = os.path.join(w, "verif"), os.path.join(w, "repo")
        shutil.rmtree(os.path.join(wv, "build"), ignore_errors=True)
        ct = os.path.join(wv, "replay", "Cargo.toml")
        txt = open(ct).read().replace('path = "/repo"', f'path = "{wr}"').replace(f'path = "{repo0}"', f'path = "{wr}"')
        open(ct, "w").write(txt)
        dc = os.path.join(wv, "tools", "dig_cases.py")
        txt = open(dc).read().replace('os.path.join("/repo", "tests"', f'os.path.join("{wr}", "tests"')
        open(dc, "w").write(txt)
        env = dict(os.environ, VERIF_REPO=wr, VERIF_NO_CACHE="1", CARGO_NET_OFFLINE="true")
        procs.append(subprocess.Popen([sys.executable, os.path.join(wv, "tools", "mutate.py"), "worker", str(i), str(n)], env=env,
                                      stdout=open(os.path.join(root, f"w{i}.log"), "w"), stderr=subprocess.STDOUT))
    for p in procs:
        p.wait()
    allr = []
    for i in range(n):
        f = os.path.join(root, f"w{i}", "verif", "out", f"mutants-{i}.jsonl")
        if os.path.exists(f):
            allr += [json.loads(l) for l in open(f) if l.strip()]
    allr.sort(key=lambda r: r["id"])
    with open(os.path.join(root, "mutants.jsonl"), "w") as g:
        for r in allr:
            g.write(json.dumps(r) + "\n")
    st = {}
    for r in allr:
        st[str(r.get("killed"))] = st.get(str(r.get("killed")), 0) + 1
    print("mutants:", len(allr), st)
    for i in range(n):
        shutil.rmtree(os.path.join(root, f"w{i}", "repo", "target"), ignore_errors=True)


if __name__ == "__main__":
    cmd = sys.argv[1]
    if cmd == "list":
        ms = mutants(os.environ.get("VERIF_REPO", "/repo"))
        for m in ms:
            print(m["id"], m["file"], m["line"], m["op"], "|", m["old"].strip()[:70], "=>", m["new"].strip()[:70])
        print(len(ms))
    elif cmd == "worker":
        worker(int(sys.argv[2]), int(sys.argv[3]))
    elif cmd == "drive":
        drive(sys.argv[2], int(sys.argv[3]))
