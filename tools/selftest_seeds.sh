#!/bin/bash
# selftest_seeds.sh: apply every seeded change in turn, run the check(s) of its property, and report whether a VIOLATION is
# raised (and by which route). A regression test of the machinery itself; not one of the registered checks.
cd /verif
for d in seeded/*/; do
  s=$(basename $d)
  props=$(python3 -c "import json;m=json.load(open('$d/meta.json'));print(m.get('checks_run') or m['property'])")
  [ "$s" = "C15-b" ] && props="C04 C18 C15"
  cd /repo && git status --short | grep -q . && { echo "/repo not clean"; exit 2; }
  git apply /verif/$d/patch.diff || { echo "$s: patch does not apply"; cd /verif; continue; }
  cd /verif
  for p in $props; do
    ./check $p > out/self_$s_$p.log 2>&1; rc=$?
    v=$(grep -c '^VIOLATION' out/self_$s_$p.log); u=$(grep -c '^UNDECIDED' out/self_$s_$p.log)
    route="verus"; [ $u -gt 0 ] && route="bounded (verus undecided)"; [ $v -eq 0 ] && route="-"
    echo "$s $p rc=$rc violations=$v route=$route"
  done
  git -C /repo checkout -- .
done
git -C /verif checkout -- evidence/ 2>/dev/null
