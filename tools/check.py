#!/usr/bin/env python3
"""check.py <property-id> [--tier quick|thorough]

Regenerates the Verus units the property depends on from /repo's working tree, runs Verus on each
unit and on its must-fail canary twin, maps every verification diagnostic back to a contract clause
or a repo location, decides the property and writes evidence/<id>.json.

exit 0: every obligation owned by the property was discharged (known findings are printed)
exit 1: a locked obligation failed -> VIOLATION line(s)
exit 2: undecided (lost anchor, front-end error, resource limit, vacuous contract)
"""
import bisect
import concurrent.futures as cf
import hashlib
import json
import os
import re
import shutil
import subprocess
import sys
import time

HERE = os.path.dirname(os.path.abspath(__file__))
sys.path.insert(0, HERE)
import vx  # noqa: E402

VERIF = vx.VERIF
BUILD = os.path.join(VERIF, "build")
OUT = os.path.join(VERIF, "out")

VERIF_KINDS = [
    (r"postcondition not satisfied", "postcondition"),
    (r"precondition not satisfied|precondition not met", "precondition"),
    (r"assertion failed", "assertion"),
    (r"possible arithmetic underflow/overflow", "arith-overflow"),
    (r"possible bit shift underflow/overflow", "shift-overflow"),
    (r"possible division by zero", "div-by-zero"),
    (r"invariant not satisfied", "invariant"),
    (r"loop invariant not", "invariant"),
    (r"decreases not satisfied|could not prove termination|decreases.*not", "termination"),
    (r"unable to prove post-condition of closure", "postcondition"),
    (r"unable to prove pre-condition|closure.*precondition", "precondition"),
    (r"recommendation not met", None),  # ignored (warning-like)
    (r"unable to prove assertion safety|cannot prove", "assertion"),
    (r"index out of bounds|possible index", "index"),
    (r"unreachable", "unreachable"),
    (r"value may be out of range|possible truncation|cast", "cast"),
    (r"constructed value may fail to meet its declared type invariant", "type-invariant"),
    (r"may fail to.*trait", "trait-contract"),
]
RLIMIT_PAT = re.compile(r"Resource limit|rlimit|timed? ?out", re.I)
TAG_RE = re.compile(r"\[(C\d\d(?:\.[A-Za-z0-9_.\-]+)?)\]")


def classify(msg):
    for pat, kind in VERIF_KINDS:
        if re.search(pat, msg):
            return kind if kind else "ignore"
    return None


class OriginMap:
    def __init__(self, path):
        d = json.load(open(path))
        self.segs = d["map"]
        self.functions = d["functions"]
        self.items = d["items"]
        self.norm = d["norm"]
        self.starts = [s["start"] for s in self.segs]

    def lookup(self, off):
        i = bisect.bisect_right(self.starts, off) - 1
        if i < 0:
            return None
        s = self.segs[i]
        rel = off - s["start"]
        nl = bisect.bisect_right(s["nl"], rel - 1) if rel > 0 else 0
        d = dict(s)
        if "line" in s:
            d["at_line"] = s["line"] + nl
        return d


def run_verus(path, rlimit=None, seed=None, timeout=400):
    cmd = ["verus", os.path.basename(path), "--output-json", "--time", "--error-format=json",
           "--multiple-errors", "5", "--num-threads", "4", "--triggers-mode", "silent"]
    if rlimit:
        cmd += ["--rlimit", str(rlimit)]
    if seed is not None:
        cmd += ["--smt-option", f"smt.random_seed={seed}"]
    t0 = time.time()
    try:
        p = subprocess.run(cmd, cwd=os.path.dirname(path), capture_output=True, text=True, timeout=timeout)
        rc, so, se = p.returncode, p.stdout, p.stderr
    except subprocess.TimeoutExpired as e:
        # (TimeoutExpired carries bytes even under text=True)
        so, se = e.stdout or "", e.stderr or ""
        if isinstance(so, bytes):
            so = so.decode(errors="replace")
        if isinstance(se, bytes):
            se = se.decode(errors="replace")
        rc, se = -9, se + "\nTIMEOUT"
    wall = time.time() - t0
    res = None
    try:
        # stdout = one JSON document (possibly preceded by other lines)
        i = so.index("{")
        res = json.loads(so[i:])
    except Exception:
        res = None
    diags = []
    for line in se.splitlines():
        line = line.strip()
        if line.startswith("{") and '"$message_type"' in line:
            try:
                diags.append(json.loads(line))
            except Exception:
                pass
    return dict(cmd=" ".join(cmd), rc=rc, result=res, diags=diags, stderr=se, wall=wall)


def breakdown(res):
    out = {}
    if not res:
        return out
    try:
        for m in res["times-ms"]["smt"]["smt-run-module-times"]:
            for f in m.get("function-breakdown", []):
                out[f["function"]] = f
    except Exception:
        pass
    return out


VERUS_ID = None


def verus_id():
    global VERUS_ID
    if VERUS_ID is None:
        try:
            VERUS_ID = subprocess.run(["verus", "--version"], capture_output=True, text=True, timeout=60).stdout.strip()
        except Exception:
            VERUS_ID = "verus?"
    return VERUS_ID


def run_verus_cached(path):
    """run_verus, reusing the result of an earlier run on a byte-identical generated file (same verifier, same flags).
    The unit file is still generated from /repo on every run; what is skipped is re-verifying text that has already
    been decided. Only definitive runs are stored (a verdict per function; no time-out, no resource limit, no crash).
    VERIF_NO_CACHE=1 switches this off."""
    import hashlib
    if os.environ.get("VERIF_NO_CACHE"):
        return run_verus(path, None, None)
    h = hashlib.sha256()
    h.update(open(path, "rb").read())
    h.update(verus_id().encode())
    h.update(b"flags-v1")
    key = h.hexdigest()
    cdir = os.path.join(BUILD, "cache")
    cp = os.path.join(cdir, key + ".json")
    if os.path.exists(cp):
        try:
            d = json.load(open(cp))
            d["cached"] = True
            return d
        except Exception:
            pass
    d = run_verus(path, None, None)
    definitive = d["result"] is not None and "verification-results" in d["result"] and d["rc"] != -9 \
        and not d["result"]["verification-results"].get("encountered-vir-error") \
        and not any(RLIMIT_PAT.search(x.get("message", "")) for x in d["diags"])
    if definitive:
        os.makedirs(cdir, exist_ok=True)
        try:  # keep the cache small: the 150 most recently written results
            old = sorted((os.path.join(cdir, x) for x in os.listdir(cdir) if x.endswith(".json")), key=os.path.getmtime)
            for x in old[:-150]:
                os.remove(x)
        except OSError:
            pass
        tmp = cp + f".{os.getpid()}.tmp"
        with open(tmp, "w") as f:
            json.dump(d, f)
        os.replace(tmp, cp)
    return d


def process_unit(unit, tier, seed):
    """one unit at a time per name, also across concurrently running checks (they share build/<unit>.rs)"""
    import fcntl
    os.makedirs(BUILD, exist_ok=True)
    with open(os.path.join(BUILD, unit + ".lock"), "w") as lk:
        fcntl.flock(lk, fcntl.LOCK_EX)
        try:
            return process_unit_locked(unit, tier, seed)
        finally:
            fcntl.flock(lk, fcntl.LOCK_UN)


def process_unit_locked(unit, tier, seed):
    """returns dict(status=ok|undecided, reason, failures=[...], functions=[...], canary=..., cmd, times)"""
    r = dict(unit=unit, status="ok", reason=None, failures=[], functions=[], canaries=dict(total=0, failed_as_required=0),
             cmds=[], smt_ms=0, wall=0.0, norm={}, items=[], assumptions={}, per_function=[])
    try:
        main_rs, stats = vx.write_unit(unit, BUILD, canary=False)
        can_rs, _ = vx.write_unit(unit, BUILD, canary=True)
    except vx.LostAnchor as e:
        r.update(status="undecided", reason=f"lost-anchor: {e}")
        return r
    om = OriginMap(main_rs[:-3] + ".map.json")
    r["functions"] = om.functions
    r["items"] = om.items
    r["norm"] = om.norm
    text = open(main_rs).read()
    r["assumptions"] = scan_assumptions(text)
    if r["assumptions"].get("admit(", 0) or r["assumptions"].get("assume(", 0):
        r.update(status="undecided", reason="assume()/admit() present in the generated unit")
        return r
    with cf.ThreadPoolExecutor(2) as ex:
        fm = ex.submit(run_verus_cached, main_rs)
        fc = ex.submit(run_verus_cached, can_rs)
        m, c = fm.result(), fc.result()
    r["cached"] = bool(m.get("cached")) and bool(c.get("cached"))
    r["cmds"].append(m["cmd"])
    r["wall"] = m["wall"] + c["wall"]
    res = m["result"]
    if res is None or "verification-results" not in res:
        r.update(status="undecided", reason="verus produced no result: " + m["stderr"][-600:])
        return r
    vr = res["verification-results"]
    bd = breakdown(res)
    try:
        r["smt_ms"] = res["times-ms"]["smt"]["total"]
    except Exception:
        pass
    lines = text.split("\n")
    line_starts = [0]
    for l in lines:
        line_starts.append(line_starts[-1] + len(l) + 1)
    gen_name = os.path.basename(main_rs)
    frontend_errors = []
    rlimit_hit = []
    for d in m["diags"]:
        if d.get("level") != "error":
            continue
        msg = d.get("message", "")
        if msg.startswith("aborting due to"):
            continue
        kind = classify(msg)
        if RLIMIT_PAT.search(msg):
            rlimit_hit.append(msg)
            continue
        if kind == "ignore":
            continue
        if kind is None and not d.get("code") and not vr.get("encountered-vir-error") and vr.get("errors", 0) > 0:
            # vstd attaches its own wording to some preconditions (e.g. "precondition not met: index in bounds for this
            # access"); rustc errors carry an error code and VIR (unsupported construct) errors set encountered-vir-error
            kind = "precondition"
        if kind is None:
            frontend_errors.append(msg + " :: " + (d.get("rendered") or "")[:400])
            continue
        def call_site(s):
            # a failure inside a std macro (todo!(), unreachable!(), panic!()) is reported at the macro's definition:
            # follow the expansion chain back to the place in the generated file
            while s is not None and s.get("file_name") != gen_name:
                s = (s.get("expansion") or {}).get("span")
            return s
        spans = [x for x in (call_site(s) for s in d.get("spans", [])) if x]
        for ch in d.get("children", []):
            spans += [x for x in (call_site(s) for s in ch.get("spans", [])) if x]
        prim = [s for s in spans if s.get("is_primary")] or spans
        fn_id, repo_loc, tags, hl = None, None, [], None
        clause_text = None
        for s in prim + [x for x in spans if x not in prim]:
            # rustc byte offsets == char offsets only for ASCII; use line/col to be safe
            off = line_starts[s["line_start"] - 1] + s["column_start"] - 1
            o = om.lookup(off)
            if not o:
                continue
            if fn_id is None and o.get("fn"):
                fn_id = o["fn"]
            if o["kind"] == "repo" and repo_loc is None:
                repo_loc = f"{o['file']}:{o['at_line']}"
                hl = "".join(t["text"][t["highlight_start"] - 1:t["highlight_end"] - 1] for t in s.get("text", [])[:1])
            if o["kind"] in ("vc", "tmpl"):
                for ln in range(s["line_start"], s["line_end"] + 1):
                    tg = TAG_RE.findall(lines[ln - 1])
                    tags += tg
                if clause_text is None and s.get("text"):
                    clause_text = s["text"][0]["text"].strip()
        r["failures"].append(dict(unit=unit, kind=kind, message=msg, fn=fn_id, repo_loc=repo_loc, highlight=hl,
                                  tags=sorted(set(tags)), clause=clause_text, rendered=d.get("rendered", "")))
    if frontend_errors or vr.get("encountered-vir-error"):
        r.update(status="undecided", reason="front-end error: " + " | ".join(frontend_errors)[:1500])
        return r
    # A function that has MORE loops or closures than on the tree the proofs were written on (contracts/shapes.json) contains a loop
    # without invariant or a closure without contract. That the verifier cannot prove it is then no evidence of a violation (a
    # behaviour-preserving rewrite into an iterator chain or a helper loop looks exactly like that): such failures make the unit
    # undecided, the bounded layer decides. Fewer loops / closures, or the same number, are decided as usual.
    try:
        shapes = json.load(open(os.path.join(VERIF, "contracts", "shapes.json")))
    except Exception:
        shapes = {}
    reshaped = set()
    for f in om.functions:
        rec = shapes.get(f["id"])
        if f.get("mode") == "fn" and rec and f.get("n_loops") is not None and (f["n_loops"] > rec[0] or f["n_closures"] > rec[1]):
            reshaped.add(f["id"])
    hit = sorted(set(x["fn"] for x in r["failures"] if x.get("fn") in reshaped))
    if hit:
        r["failures"] = [x for x in r["failures"] if x.get("fn") not in reshaped]
        if not r["failures"]:
            r.update(status="undecided", reason="function reshaped (a new loop or closure without invariant / contract): " + ", ".join(hit))
            return r
    if rlimit_hit or m["rc"] == -9:
        r.update(status="undecided", reason="resource limit: " + " | ".join(rlimit_hit)[:500])
        return r
    if vr.get("errors", 0) and not r["failures"]:
        r.update(status="undecided", reason="verus reports errors but no diagnostic could be mapped: " + m["stderr"][-800:])
        return r
    # obligation guard: every extracted exec function must be in the breakdown
    names = {}
    for f in bd:
        names.setdefault(f.split("::")[-1], []).append(bd[f])
    want = {}
    for f in om.functions:
        if f["mode"] == "fn":
            want[f["name"]] = want.get(f["name"], 0) + 1
    for fn, n in want.items():
        if len(names.get(fn, [])) < n:
            r.update(status="undecided", reason=f"function {fn} missing from Verus' function breakdown (no obligations generated)")
            return r
    for f, v in bd.items():
        r["per_function"].append(dict(function=f, backend="verus/z3", ms=v.get("time"), rlimit=v.get("rlimit"),
                                      success=v.get("success")))
    if tier == "thorough" and not r["failures"]:
        # stability: the same unit under two further Z3 seeds. A function that flips is reported as unstable in the
        # evidence (a brittle proof is a future false alarm); it never changes the verdict of this run.
        base = 7 * (seed or 0)
        r["stability"] = dict(seeds=[base + 1, base + 2], unstable=[])
        for sd in r["stability"]["seeds"]:
            mm = run_verus(main_rs, None, sd)
            r["wall"] += mm["wall"]
            rr = mm["result"]
            if rr is None or "verification-results" not in rr:
                r["stability"]["unstable"].append(f"seed {sd}: no result")
                continue
            for f, v in breakdown(rr).items():
                if v.get("success") is False:
                    r["stability"]["unstable"].append(f"seed {sd}: {f}")
    # canaries
    cres = c["result"]
    failing_fns = {f["fn"] for f in r["failures"] if f["fn"]}
    if cres is None or "verification-results" not in cres or cres["verification-results"].get("encountered-vir-error"):
        r.update(status="undecided", reason="canary run did not complete: " + c["stderr"][-600:])
        return r
    cbd = breakdown(cres)
    vac = []
    for f, v in cbd.items():
        if f.endswith("__canary"):
            r["canaries"]["total"] += 1
            if v.get("success") is False:
                r["canaries"]["failed_as_required"] += 1
            else:
                vac.append(f)
    ncan = sum(1 for f in om.functions if f["mode"] == "fn")
    if vac:
        r.update(status="undecided", reason="vacuity guard: `ensures false` canary verified for " + ", ".join(vac))
        return r
    return r


ASSUME_PATTERNS = ["assume(", "admit(", "external_body", "assume_specification", "#[verifier::external",
                   "exec_allows_no_decreases_clause", "exec_assume_termination", "assume_termination"]


def scan_assumptions(text):
    # strip comments
    out = {}
    code = re.sub(r"//[^\n]*", "", text)
    for p in ASSUME_PATTERNS:
        n = code.count(p)
        if n:
            out[p] = n
    return out


def trusted_lines(units):
    """collect the [A-...] annotated assumption comments from the generated units"""
    seen = []
    for u in units:
        p = os.path.join(BUILD, u + ".rs")
        if os.path.exists(p):
            for l in open(p):
                m = re.search(r"//+\s*((?:N\d+\s+)?)\[(A-[a-z\-]+)\]:?\s*(.*)", l)
                if m:
                    s = f"{m.group(2)}: {m.group(1)}{m.group(3).strip()}"
                    if s not in seen:
                        seen.append(s)
    return seen


def load_known():
    p = os.path.join(VERIF, "known_findings.json")
    if os.path.exists(p):
        return json.load(open(p))
    return dict(known=[], fixed=[])


def match_known(f, prop, known):
    for k in known.get("known", []):
        if k["property"] != prop or k.get("scenario"):
            continue
        if k.get("fn") and k["fn"] != f.get("fn"):
            continue
        if k.get("kind") and k["kind"] != f.get("kind"):
            continue
        if k.get("tag") and k["tag"] not in f.get("tags", []):
            continue
        if k.get("highlight") and k["highlight"] != (f.get("highlight") or ""):
            continue
        return k
    return None


def main():
    prop = sys.argv[1]
    tier = os.environ.get("VERIF_TIER", "quick")
    if "--tier" in sys.argv:
        tier = sys.argv[sys.argv.index("--tier") + 1]
    os.environ["VERIF_TIER"] = tier
    seed = int(os.environ.get("VERIF_SEED", "0") or 0)
    t0 = time.time()
    pmap = json.load(open(os.path.join(VERIF, "contracts", "properties.json")))
    if prop not in pmap:
        print(f"UNDECIDED property={prop} reason=no-check-registered")
        sys.exit(2)
    spec = pmap[prop]
    units = spec["units"]
    os.makedirs(BUILD, exist_ok=True)
    os.makedirs(os.path.join(OUT, "replay"), exist_ok=True)
    with cf.ThreadPoolExecutor(max(1, min(len(units), 5))) as ex:
        results = list(ex.map(lambda u: process_unit(u, tier, seed), units))
    undecided = [r for r in results if r["status"] != "ok"]
    known = load_known()
    owned_fail, other_fail = [], []
    for r in results:
        fn_own = {f["id"]: f.get("own", []) for f in r["functions"]}
        for f in r["failures"]:
            owners = set(t.split(".")[0] for t in f["tags"]) | set(fn_own.get(f["fn"], []))
            # a failing obligation inside a function the property depends on counts for the property
            for pid, sp in pmap.items():
                if f["fn"] and f["fn"] in sp.get("fns", []):
                    owners.add(pid)
            owners = sorted(owners)
            f["owners"] = owners
            (owned_fail if prop in owners else other_fail).append(f)
    # obligations owned by this property
    clauses = []  # tagged clause lines
    fn_owned = []
    for r in results:
        p = os.path.join(BUILD, r["unit"] + ".rs")
        if os.path.exists(p):
            for ln, l in enumerate(open(p), 1):
                for tg in TAG_RE.findall(l):
                    if tg.split(".")[0] == prop:
                        clauses.append(dict(unit=r["unit"], tag=tg, text=l.strip()))
        for f in r["functions"]:
            if f["mode"] == "fn" and (prop in f.get("own", []) or f["id"] in spec.get("fns", [])):
                fn_owned.append(dict(unit=r["unit"], fn=f["id"], file=f["file"], lines=f["lines"], sha256=f["sha256"]))
    n_obl = len(clauses) + len(fn_owned)
    undec_units = {r["unit"] for r in results if r["status"] != "ok"}
    # obligations of a unit the verifier could not decide are not discharged
    n_undec = sum(1 for c in clauses if c["unit"] in undec_units) + sum(1 for f in fn_owned if f["unit"] in undec_units)
    failed_keys = set()
    for f in owned_fail:
        mine = [t for t in f["tags"] if t.split(".")[0] == prop]
        for t in mine:
            failed_keys.add(("tag", t))
        if not mine:
            # owned through the function (an implicit obligation, or a clause tagged for another property in a function
            # this property depends on): the function's obligation counts as failed
            failed_keys.add(("fn", f["fn"]))
    n_failed = n_undec
    for c in clauses:
        if ("tag", c["tag"]) in failed_keys and c["unit"] not in undec_units:
            n_failed += 1
    for f in fn_owned:
        if ("fn", f["fn"]) in failed_keys and f["unit"] not in undec_units:
            n_failed += 1
    violations, known_hits = [], []
    for f in owned_fail:
        k = match_known(f, prop, known)
        if k:
            known_hits.append((k, f))
        else:
            violations.append(f)
    rc = 0
    lines_out = []
    # bounded stand-in / witness search: hand-written scenarios replayed on the real crate (never counted as proof).
    # Run when the verifier reports a violation (to attach a failing input), when it is undecided (the bounded
    # check then stands in for the functions it could not reach) and always in the thorough tier.
    bounded = dict(scenarios_run=0, failed=[], note="bounded: finite hand-written scenario set per property, public API, debug+release; for C09/C10/C11 also the "
                        "exhaustive grid of all texts of up to 3 (thorough: 4) items of scenarios/C09/alphabet.txt; for the thirteen properties with a row-level meaning the regression grid "
                        "(tools/gridgen.py: 250 generated scenarios per property, compared with the behaviour recorded on the tree on which the contracts were proved); for C16 the generated "
                        ".dig documents (tools/dig_cases.py); all counted in scenarios_run")
    scen_fail = []
    scen_known = []
    always = bool(spec.get("bounded_always")) or any(k.get("scenario") and k["property"] == prop for k in known.get("known", []))  # properties that lean on the (unverifiable) generated lexer: replay on every run
    if violations or undecided or tier == "thorough" or always:
        try:
            import scenarios as sc
            n_s, scen_fail = sc.run_property(prop)
            bounded["scenarios_run"] = n_s
            # a scenario listed in known_findings.json (by its file) is a recorded genuine defect, not a new violation
            kscen = {k["scenario"]: k for k in known.get("known", []) if k.get("scenario") and k["property"] == prop}
            for f, b, o in list(scen_fail):
                rel = os.path.relpath(f, VERIF)
                if rel in kscen:
                    scen_known.append(kscen[rel])
                    scen_fail.remove((f, b, o))
            bounded["known_findings_reproduced"] = [k["scenario"] for k in scen_known]
            bounded["failed"] = [dict(scenario=os.path.relpath(f, VERIF), mismatches=b[:3]) for f, b, _ in scen_fail]
        except BaseException as e:  # the replay build can fail when the mutant does not compile the public API
            bounded["error"] = str(e)[-400:]
    if undecided:
        for r in undecided:
            lines_out.append(f"UNDECIDED property={prop} unit={r['unit']} reason={r['reason']}")
        # The verifier could not decide some unit (lost anchor, construct outside its reach, resource limit). That is
        # never an alarm. What was explored then is: the units that did verify, and the bounded scenario stand-in, which
        # always runs in this case. If those all hold the check exits 0 ("held on everything explored"), says UNDECIDED
        # above and records level "other" with the bounded figures in the evidence; a scenario that fails is a VIOLATION
        # (below). Only when nothing at all could be explored (the replay did not build or no scenario exists) is the
        # exit status 2.
        rc = 0 if (bounded.get("scenarios_run", 0) > 0 and not bounded.get("error")) else 2
        if rc == 0:
            lines_out.append(f"BOUNDED-ONLY property={prop} the deductive check is undecided for {len(undecided)} unit(s); "
                             f"bounded stand-in: {bounded['scenarios_run']} scenarios replayed on the real code, "
                             f"{len(scen_fail)} failing")
    seenk = set()
    for k in scen_known:
        if k["text"] not in seenk:
            seenk.add(k["text"])
            lines_out.append(f"KNOWN-FINDING: property={prop} {k['text']}")
    for k, f in known_hits:
        if k["text"] not in seenk:
            seenk.add(k["text"])
            lines_out.append(f"KNOWN-FINDING: property={prop} {k['text']}")
    import replay as rp
    kani_cache = {}

    def kani_for(fn_id):
        # Verus gives no counterexample; for the scalar leaf functions a loop-free Kani harness over the same extracted
        # text does (tools/kani_leaf.py). Run only when there is a violation in such a function.
        if fn_id in kani_cache:
            return kani_cache[fn_id]
        res = None
        try:
            import kani_leaf as kl
            if fn_id in kl.BY_FN:
                kl.gen()
                for h in kl.BY_FN[fn_id]:
                    rr = kl.run(h, timeout=90)
                    if rr["status"] == "failed":
                        res = dict(harness=h, values=rr.get("values"), failed_checks=rr.get("failed_checks"), cmd=rr["cmd"],
                                   bounded=kl.BOUNDED.get(h))
                        try:
                            res["replay"] = kl.replay_counterexample(h, rr.get("values") or [])
                        except BaseException as e:
                            res["replay_error"] = str(e)[-300:]
                        break
        except BaseException as e:
            res = dict(error=str(e)[-300:])
        kani_cache[fn_id] = res
        return res

    if violations:
        for n, f in enumerate(violations):
            path = os.path.join(OUT, "replay", f"{prop}-{n}.json")
            tail = rp.make_replay(prop, f, path, scen_fail, kani_for(f.get("fn")))
            lines_out.append(f"VIOLATION property={prop} replay={path}" + (" " + tail if tail else ""))
        rc = 1
    elif scen_fail and (undecided or tier == "thorough" or always):
        # the verifier could not decide (or proved the contracts) but a concrete scenario contradicts the statement
        f0 = dict(unit=None, fn=None, kind="bounded-scenario", tags=[], clause=None, repo_loc=None, highlight=None,
                  message="bounded stand-in: a scenario's observed outcome differs from what the property statement prescribes"
                          + ("; the deductive check itself is undecided: " + "; ".join(str(r["reason"])[:300] for r in undecided) if undecided else ""),
                  rendered="")
        path = os.path.join(OUT, "replay", f"{prop}-0.json")
        tail = rp.make_replay(prop, f0, path, scen_fail)
        lines_out.append(f"VIOLATION property={prop} replay={path}" + (" " + tail if tail else ""))
        violations = [f0]
        rc = 1
    # thorough tier: sanity tests of the assumed std specifications ([A-std]): the std compositions behind the trusted
    # combinators are executed on pseudo-random data and the assumed postconditions evaluated in plain Rust (sanity/)
    sanity = None
    if tier == "thorough":
        try:
            env = dict(os.environ, CARGO_TARGET_DIR=os.path.join(BUILD, "sanity-target"), CARGO_NET_OFFLINE="true")
            p_ = subprocess.run(["cargo", "run", "--offline", "-q", "--release"], cwd=os.path.join(VERIF, "sanity"), env=env,
                                capture_output=True, text=True, timeout=600)
            last = (p_.stdout.strip().splitlines() or [""])[-1]
            sanity = dict(ok=(p_.returncode == 0 and last.startswith("sanity ok")), output=last[:200])
            if not sanity["ok"]:
                lines_out.append(f"UNDECIDED property={prop} unit=- reason=an assumed std specification failed its sanity test: {last[:160]}")
        except BaseException as e:
            sanity = dict(ok=None, error=str(e)[-200:])
    # thorough tier: the Kani twins of the scalar leaf functions this property owns, as a second, independent back end
    kani_runs = []
    if tier == "thorough":
        try:
            import kani_leaf as kl
            owned_ids = {f["fn"] for f in fn_owned} | set(spec.get("fns", []))
            hs = []
            for fid, hl in kl.BY_FN.items():
                if fid in owned_ids:
                    hs += [h for h in hl if h not in hs]
            if hs:
                kl.gen()
                for h in hs:
                    rr = kl.run(h, timeout=180)
                    rr["coverage"] = "bounded: " + kl.BOUNDED[h] if h in kl.BOUNDED else "complete (loop-free, full-domain symbolic inputs)"
                    if rr["status"] == "failed":
                        try:
                            rr["replay"] = kl.replay_counterexample(h, rr.get("values") or [])
                        except BaseException as e:
                            rr["replay_error"] = str(e)[-300:]
                    kani_runs.append(rr)
                for rr in kani_runs:
                    if rr["status"] == "failed" and rr.get("replay", {}).get("confirmed_on_real_code") and not violations:
                        # the second back end found a concrete input on which the real crate contradicts the statement
                        f0 = dict(unit="kani_leaf", fn=None, kind="kani-counterexample", tags=[], clause=rr["harness"], repo_loc=None,
                                  highlight=None, message="Kani harness " + rr["harness"] + " failed: " + "; ".join(rr.get("failed_checks", [])),
                                  rendered="")
                        path = os.path.join(OUT, "replay", f"{prop}-kani.json")
                        rp.make_replay(prop, f0, path, None, dict(harness=rr["harness"], values=rr.get("values"), cmd=rr["cmd"], replay=rr["replay"]))
                        lines_out.append(f"VIOLATION property={prop} replay={path}")
                        violations.append(f0)
                        rc = 1
        except BaseException as e:
            kani_runs.append(dict(error=str(e)[-300:]))
    # evidence
    tb = ["Verus 0.2026.09.13 + bundled Z3 (A-verus); vstd specifications of std taken as given"]
    tb += trusted_lines(units)
    if kani_runs or any(kani_cache.values()):
        tb.append("A-kani: Kani 0.68 / CBMC 6.11 on the leaf functions extracted by tools/kani_leaf.py (second back end in the thorough tier; "
                  "counterexample source for violations in BinOp::eval, UnaryOp::eval, bit_mask, ExpectedValue::check)")
    norm_total = {}
    assum_total = {}
    for r in results:
        for k, v in r["norm"].items():
            norm_total[k] = norm_total.get(k, 0) + v
        for k, v in r["assumptions"].items():
            assum_total[k] = assum_total.get(k, 0) + v
    tb.append("A-extract: normalisations applied this run " + json.dumps(norm_total, sort_keys=True))
    tb.append("assumption scan of generated units " + json.dumps(assum_total, sort_keys=True))
    for t in spec.get("trusted", []):
        tb.append(t)
    samples = [dict(clause=c["tag"], unit=c["unit"], text=c["text"][:200]) for c in clauses[:6]]
    samples += [dict(function=f["fn"], repo=f"{f['file']}:{f['lines'][0]}-{f['lines'][1]}", sha256=f["sha256"][:16],
                     obligation="all implicit safety obligations (panic/overflow/index/termination) of this body")
                for f in fn_owned[:4]]
    ev = dict(
        stability=[dict(unit=r["unit"], **r["stability"]) for r in results if r.get("stability")],
        kani=kani_runs,
        assumption_sanity=sanity,
        property_id=prop, tier=tier, seed=seed, level=("proof" if not undecided else "other") if spec.get("category", "proof") == "proof" else spec["category"],
        coverage=dict(
            obligations=n_obl, discharged=n_obl - n_failed,
            checker_cmd="; ".join(sorted({c for r in results for c in r["cmds"]})) or "verus <unit>.rs --output-json",
            trusted_base=tb,
            samples=samples or [dict(note="no obligation owned")],
            explanation=(spec.get("explanation", "") + " " if spec.get("explanation") else "") +
                        f"This run: Verus on {len(results)} generated unit(s), {sum(1 for r in results if r['status'] == 'ok')} decided"
                        + (" (undecided: " + "; ".join(f"{r['unit']}: {str(r['reason'])[:160]}" for r in undecided) + "), which is why the level of this run is 'other' and not 'proof'" if undecided else "")
                        + f"; {n_obl} obligations owned by the property, {n_obl - n_failed} discharged; bounded stand-in: "
                        + (f"{bounded.get('scenarios_run', 0)} scenarios / generated cases replayed on the real crate, {len(scen_fail)} failing" if bounded.get("scenarios_run") else "not run in this tier (the verifier decided every unit)") + ".",
            units=[dict(unit=r["unit"], status=r["status"], reason=r["reason"], smt_ms=r["smt_ms"],
                        wall_s=round(r["wall"], 2), canaries=r["canaries"],
                        result_reused_from_identical_text=bool(r.get("cached"))) for r in results],
            functions_under_contract=[dict(id=f["id"], mode=f["mode"], repo=f"{f['file']}:{f['lines'][0]}-{f['lines'][1]}",
                                           sha256=f["sha256"]) for r in results for f in r["functions"]],
            per_function=[pf for r in results for pf in r["per_function"]
                          if not pf["function"].startswith("vstd")][:400],
            clause_ids=sorted({c["tag"] for c in clauses}),
            undecided_clauses=spec.get("undecided_clauses", []),
            failed=[dict(fn=f["fn"], kind=f["kind"], tags=f["tags"], repo=f["repo_loc"], message=f["message"])
                    for f in owned_fail],
            known_findings=[k["text"] for k, _ in known_hits],
            other_property_failures_seen=len(other_fail),
            bounded=bounded,
        ),
        assumptions=tb,
        wall_s=round(time.time() - t0, 2),
        violations=len(violations),
    )
    os.makedirs(os.path.join(VERIF, "evidence"), exist_ok=True)
    with open(os.path.join(VERIF, "evidence", prop + ".json"), "w") as f:
        json.dump(ev, f, indent=1)
    for l in lines_out:
        print(l)
    ok_units = sum(1 for r in results if r["status"] == "ok")
    print(f"{prop}: units {ok_units}/{len(results)} ok, obligations {n_obl}, discharged {n_obl - n_failed}, "
          f"violations {len(violations)}, known {len(seenk)}, other-property failures seen {len(other_fail)}, "
          f"{time.time() - t0:.1f}s")
    sys.exit(rc)


if __name__ == "__main__":
    main()
