#!/bin/bash
# selftest_bg.sh: the selftest of tools/selftest_seeds.sh for `vp run --with-repo -- tools/selftest_bg.sh`: works on the snapshot of
# /repo given in $VP_RUN_REPO (or $1) and on the snapshot of /verif it is started in, so it disturbs neither /repo nor /verif.
R=${VP_RUN_REPO:-$1}
[ -d "$R/src" ] || { echo "no repo snapshot"; exit 2; }
V=$(cd "$(dirname "$0")/.." && pwd)
cd $V
sed -i "s|path = \"/repo\"|path = \"$R\"|" replay/Cargo.toml
sed -i "s|os.path.join(\"/repo\", \"tests\"|os.path.join(\"$R\", \"tests\"|" tools/dig_cases.py
export VERIF_REPO=$R
mkdir -p out build
for d in seeded/*/; do
  s=$(basename $d)
  props=$(python3 -c "import json;m=json.load(open('$d/meta.json'));print((m.get('checks_run') or m['property']).replace(',',' '))")
  [ "$s" = "C15-b" ] && props="C04 C18 C15"
  git -C $R apply $V/$d/patch.diff || { echo "$s: patch does not apply"; continue; }
  for p in $props; do
    ./check $p > out/self_${s}_$p.log 2>&1; rc=$?
    v=$(grep -c '^VIOLATION' out/self_${s}_$p.log); u=$(grep -c '^UNDECIDED' out/self_${s}_$p.log)
    route="verus"; [ $u -gt 0 ] && route="bounded (verus undecided)"; [ $v -eq 0 ] && route="-"
    echo "$s $p rc=$rc violations=$v route=$route"
  done
  git -C $R checkout -- .
done
echo "== unchanged tree"
for p in $(python3 -c "import json;print(' '.join(sorted(json.load(open('contracts/properties.json')).keys())))"); do
  ./check $p > out/self_clean_$p.log 2>&1; echo "clean $p rc=$? $(grep -c '^VIOLATION' out/self_clean_$p.log)"
done
