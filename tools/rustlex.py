"""Minimal Rust-aware scanner used by the extractor.

It does not parse Rust; it tokenises (strings, raw strings, chars vs lifetimes, nested
comments, numbers, identifiers, punctuation), matches brackets and finds items
(fn / struct / enum / trait / impl / mod / const / static / type) by structure.
Offsets are character offsets into the source text.
"""
import re

WS, COMMENT, IDENT, LIFETIME, LIT, PUNCT = "ws", "comment", "ident", "lifetime", "lit", "punct"

MULTI = ["..=", "::", "->", "=>", "||", "&&", "..", "==", "!=", "<=", ">="]
IDENT_RE = re.compile(r"[A-Za-z_][A-Za-z0-9_]*")
NUM_RE = re.compile(r"[0-9][0-9a-zA-Z_]*(\.[0-9][0-9a-zA-Z_]*)?")


class Tok:
    __slots__ = ("kind", "text", "start", "end")

    def __init__(self, kind, text, start):
        self.kind, self.text, self.start, self.end = kind, text, start, start + len(text)

    def __repr__(self):
        return f"{self.kind}:{self.text!r}@{self.start}"


class LexError(Exception):
    pass


def tokenize(src):
    toks = []
    i, n = 0, len(src)
    while i < n:
        c = src[i]
        if c.isspace():
            j = i
            while j < n and src[j].isspace():
                j += 1
            toks.append(Tok(WS, src[i:j], i))
            i = j
            continue
        if src.startswith("//", i):
            j = src.find("\n", i)
            if j < 0:
                j = n
            toks.append(Tok(COMMENT, src[i:j], i))
            i = j
            continue
        if src.startswith("/*", i):
            depth, j = 1, i + 2
            while j < n and depth:
                if src.startswith("/*", j):
                    depth += 1
                    j += 2
                elif src.startswith("*/", j):
                    depth -= 1
                    j += 2
                else:
                    j += 1
            toks.append(Tok(COMMENT, src[i:j], i))
            i = j
            continue
        # raw strings / byte strings
        m = re.match(r"b?r(#*)\"", src[i:i + 40])
        if m:
            hashes = m.group(1)
            close = '"' + hashes
            j = src.find(close, i + len(m.group(0)))
            if j < 0:
                raise LexError(f"unterminated raw string at {i}")
            j += len(close)
            toks.append(Tok(LIT, src[i:j], i))
            i = j
            continue
        if c == '"' or (c == "b" and src.startswith('b"', i)):
            j = i + (2 if c == "b" else 1)
            while j < n and src[j] != '"':
                j += 2 if src[j] == "\\" else 1
            if j >= n:
                raise LexError(f"unterminated string at {i}")
            j += 1
            toks.append(Tok(LIT, src[i:j], i))
            i = j
            continue
        if c == "'" or (c == "b" and src.startswith("b'", i)):
            k = i + (1 if c == "b" else 0)
            # char literal or lifetime
            if k + 1 < n and src[k + 1] == "\\":
                j = k + 2
                while j < n and src[j] != "'":
                    j += 1
                j += 1
                toks.append(Tok(LIT, src[i:j], i))
                i = j
                continue
            if k + 2 < n and src[k + 2] == "'":
                toks.append(Tok(LIT, src[i:k + 3], i))
                i = k + 3
                continue
            m = IDENT_RE.match(src, k + 1)
            if m:
                toks.append(Tok(LIFETIME, src[i:m.end()], i))
                i = m.end()
                continue
            raise LexError(f"stray quote at {i}")
        m = IDENT_RE.match(src, i)
        if m:
            toks.append(Tok(IDENT, m.group(0), i))
            i = m.end()
            continue
        if c.isdigit():
            m = NUM_RE.match(src, i)
            text = m.group(0)
            # `0..n` : do not swallow the range operator
            if "." in text and src.startswith("..", i + text.index(".")):
                text = text[: text.index(".")]
            toks.append(Tok(LIT, text, i))
            i += len(text)
            continue
        for mu in MULTI:
            if src.startswith(mu, i):
                toks.append(Tok(PUNCT, mu, i))
                i += len(mu)
                break
        else:
            toks.append(Tok(PUNCT, c, i))
            i += 1
    return toks


OPEN = {"(": ")", "[": "]", "{": "}"}
CLOSE = {v: k for k, v in OPEN.items()}


def sig_indices(toks):
    return [i for i, t in enumerate(toks) if t.kind not in (WS, COMMENT)]


def match_brackets(toks):
    """map index of an opening bracket token -> index of its closing token and back"""
    stack, m = [], {}
    for i, t in enumerate(toks):
        if t.kind != PUNCT:
            continue
        if t.text in OPEN:
            stack.append(i)
        elif t.text in CLOSE:
            if not stack or toks[stack[-1]].text != CLOSE[t.text]:
                raise LexError(f"unbalanced {t.text!r} at {t.start}")
            j = stack.pop()
            m[j] = i
            m[i] = j
    if stack:
        raise LexError(f"unclosed bracket at {toks[stack[-1]].start}")
    return m


ITEM_KW = {"fn", "struct", "enum", "trait", "impl", "mod", "const", "static", "type", "use", "union", "macro_rules"}


class Item:
    def __init__(self, kind, name, header, first, kw, body_open, last, children, cfg):
        self.kind, self.name, self.header = kind, name, header
        self.first = first  # token index where the item starts (incl. attributes / visibility)
        self.kw = kw  # token index of the keyword
        self.body_open = body_open  # token index of '{' or None
        self.last = last  # token index of the last token ('}' or ';')
        self.children = children
        self.cfg = cfg  # list of attribute texts

    def __repr__(self):
        return f"<{self.kind} {self.name} [{self.header}]>"


def norm(s):
    return " ".join(s.split())


def scan_items(toks, br, lo, hi):
    """items among toks[lo:hi] (one nesting level)"""
    items = []
    i = lo
    pending_first = None
    attrs = []
    while i < hi:
        t = toks[i]
        if t.kind in (WS, COMMENT):
            i += 1
            continue
        if t.kind == PUNCT and t.text == "#":
            # attribute  #[..] or #![..]
            j = i + 1
            while toks[j].kind in (WS, COMMENT) or (toks[j].kind == PUNCT and toks[j].text == "!"):
                j += 1
            if toks[j].text == "[":
                if pending_first is None:
                    pending_first = i
                attrs.append("".join(x.text for x in toks[i:br[j] + 1]))
                i = br[j] + 1
                continue
        if t.kind == IDENT and t.text in ("pub", "unsafe", "async", "extern", "default"):
            if pending_first is None:
                pending_first = i
            i += 1
            # pub(crate)
            j = i
            while j < hi and toks[j].kind in (WS, COMMENT):
                j += 1
            if t.text == "pub" and j < hi and toks[j].text == "(":
                i = br[j] + 1
            elif t.text == "extern" and j < hi and toks[j].kind == LIT:
                i = j + 1
            continue
        if t.kind == IDENT and t.text in ITEM_KW:
            kw = i
            first = pending_first if pending_first is not None else i
            kind = t.text
            if kind == "const":
                # `const fn` ?
                j = i + 1
                while toks[j].kind in (WS, COMMENT):
                    j += 1
                if toks[j].kind == IDENT and toks[j].text in ("fn", "unsafe"):
                    if pending_first is None:
                        pending_first = i
                    i += 1
                    continue
            # find end: first '{' at bracket depth 0 or ';'
            j = i + 1
            body_open = None
            last = None
            semi_only = kind in ("const", "static", "type", "use")
            while j < hi:
                tj = toks[j]
                if tj.kind == PUNCT:
                    if tj.text in ("(", "["):
                        j = br[j] + 1
                        continue
                    if tj.text == "{":
                        if semi_only:
                            j = br[j] + 1
                            continue
                        body_open = j
                        last = br[j]
                        break
                    if tj.text == ";":
                        last = j
                        break
                j += 1
            if last is None:
                raise LexError(f"item without end at {t.start}")
            # name
            name = None
            k = kw + 1
            while k < last:
                if toks[k].kind == IDENT:
                    name = toks[k].text
                    break
                if toks[k].kind == PUNCT and toks[k].text in ("<", "{", "("):
                    break
                k += 1
            hdr_end = body_open if body_open is not None else last
            header = norm("".join(x.text for x in toks[kw:hdr_end] if x.kind != COMMENT))
            children = []
            if kind in ("impl", "trait", "mod") and body_open is not None:
                children = scan_items(toks, br, body_open + 1, last)
            if kind == "macro_rules":
                name = "macro_rules"
            items.append(Item(kind, name, header, first, kw, body_open, last, children, attrs))
            # tuple struct `struct X(..);` ends at ';' handled above. A struct with a body has no ';'
            i = last + 1
            pending_first = None
            attrs = []
            continue
        # anything else at item level (e.g. a macro invocation): skip to ';' or a block
        j = i
        while j < hi:
            tj = toks[j]
            if tj.kind == PUNCT and tj.text in OPEN:
                endj = br[j]
                if tj.text == "{":
                    j = endj
                    break
                j = endj + 1
                continue
            if tj.kind == PUNCT and tj.text == ";":
                break
            j += 1
        i = j + 1
        pending_first = None
        attrs = []
    return items


class SourceFile:
    def __init__(self, path, text):
        self.path, self.text = path, text
        self.toks = tokenize(text)
        self.br = match_brackets(self.toks)
        self.items = scan_items(self.toks, self.br, 0, len(self.toks))
        # line starts
        self.line_starts = [0]
        for m in re.finditer("\n", text):
            self.line_starts.append(m.end())

    def line_of(self, off):
        import bisect
        return bisect.bisect_right(self.line_starts, off)

    def all_items(self, skip_test=True):
        out = []

        def rec(items, container):
            for it in items:
                if skip_test and any(("cfg(test)" in norm(a).replace(" ", "")) or ("cfg(kani)" in a) for a in it.cfg):
                    continue
                out.append((container, it))
                if it.children:
                    rec(it.children, it if it.kind in ("impl", "trait") else container)

        rec(self.items, None)
        return out

    def find_fn(self, container_sub, name):
        cands = []
        for cont, it in self.all_items():
            if it.kind != "fn" or it.name != name:
                continue
            if container_sub in ("-", ""):
                if cont is None:
                    cands.append((cont, it))
            elif cont is not None and norm(container_sub) in cont.header:
                cands.append((cont, it))
        return cands

    def find_item(self, kind, name):
        return [(c, it) for c, it in self.all_items() if it.kind == kind and it.name == name and c is None]
