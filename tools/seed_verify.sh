#!/bin/bash
# seed_verify.sh <seed-dir-name> <worktree>: confirm a seeded change (fails demo with patch, passes without, suite passes with patch)
S=/verif/seeded/$1; W=$2
set -u
cd $W || exit 2
git checkout -q -- . ; rm -f tests/demo_test.rs
git apply $S/patch.diff || { echo "patch does not apply"; exit 2; }
cp $S/demo_test.rs tests/demo_test.rs
echo "--- with patch: demo"; cargo test --offline --test demo_test 2>&1 | grep "test result" | head -2
echo "--- with patch: existing suite"; cargo test --offline --lib 2>&1 | grep "test result"; cargo test --offline --test 74779 2>&1 | grep "test result"
git checkout -q -- . 
echo "--- without patch: demo"; cargo test --offline --test demo_test 2>&1 | grep "test result" | head -2
rm -f tests/demo_test.rs
git status --short | grep -v OUT
