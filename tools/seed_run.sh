#!/bin/bash
# seed_run.sh <seed-dir-name> <property>...: apply the seeded patch to /repo, run the checks, undo
S=/verif/seeded/$1; shift
cd /repo && git status --short | grep -q . && { echo "/repo not clean"; exit 2; }
git apply $S/patch.diff || exit 2
cd /verif
for p in "$@"; do ./check $p 2>&1 | tail -4; echo "rc=$?"; done
git -C /repo checkout -- .
# evidence written while a seeded change was applied is not a record of the unchanged tree: restore the committed files
git -C /verif checkout -- evidence/ 2>/dev/null
