#!/bin/bash
# run_all.sh [tier]: every claimed check on the current tree, one after the other; prints one summary line per property
cd /verif
TIER=${1:-quick}
for p in $(python3 -c "import json;print(' '.join(sorted(json.load(open('contracts/properties.json')).keys())))"); do
  ./check $p --tier $TIER > out/run_all_$p.log 2>&1; rc=$?
  echo "$p rc=$rc $(tail -1 out/run_all_$p.log)"
done
