#!/usr/bin/env python3
"""run_scenario.py <scenario.scn>... : build the replay binary against /repo (debug and release) and run the scenarios"""
import json, os, subprocess, sys
VERIF = os.path.dirname(os.path.dirname(os.path.abspath(__file__)))
TARGET = os.path.join(VERIF, "build", "replay-target")

def build():
    env = dict(os.environ, CARGO_TARGET_DIR=TARGET, CARGO_NET_OFFLINE="true")
    for prof in ([], ["--release"]):
        p = subprocess.run(["cargo", "build", "--offline", "-q"] + prof, cwd=os.path.join(VERIF, "replay"), env=env, capture_output=True, text=True)
        if p.returncode != 0:
            raise SystemExit("replay build failed:\n" + p.stderr[-2000:])

def run(scn):
    out = {}
    for prof in ("debug", "release"):
        exe = os.path.join(TARGET, prof, "verif_replay")
        try:
            p = subprocess.run([exe, scn], capture_output=True, text=True, timeout=20)
            line = (p.stdout.strip().splitlines() or [""])[-1]
            try:
                out[prof] = json.loads(line)
            except Exception:
                out[prof] = dict(stage="?", outcome="crash" if p.returncode else "garbled", raw=line[:300], rc=p.returncode)
        except subprocess.TimeoutExpired:
            out[prof] = dict(stage="run", outcome="timeout")
    return out

if __name__ == "__main__":
    build()
    for s in sys.argv[1:]:
        r = run(s)
        print(os.path.basename(s))
        for k, v in r.items():
            print("   ", k, json.dumps(v)[:400])
