#!/bin/bash
# seed_intake.sh <worktree-with-OUT> <seed-name> <property>...: keep a sub-agent's change as seeded/<seed-name>, confirm it, run the checks against it
W=$1; N=$2; shift 2
S=/verif/seeded/$N
mkdir -p $S && cp $W/OUT/patch.diff $W/OUT/demo_test.rs $W/OUT/meta.json $S/ || exit 2
echo "=== confirm $N"; /verif/tools/seed_verify.sh $N $W 2>&1 | tail -12
echo "=== checks"; /verif/tools/seed_run.sh $N "$@"
