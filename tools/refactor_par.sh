#!/bin/bash
# refactor_par.sh <scratch-root> <n>: every behaviour-preserving patch under refactors/ against the checks of the properties that have a
# function of a touched file under contract, n workers on their own copies (for `vp run --with-repo`). Any VIOLATION is a false alarm.
ROOT=$1; N=$2
R0=${VP_RUN_REPO:?}
V0=$(cd "$(dirname "$0")/.." && pwd)
mkdir -p $ROOT
for i in $(seq 0 $((N-1))); do
  W=$ROOT/r$i; rm -rf $W; mkdir -p $W
  cp -r $V0 $W/verif; rm -rf $W/verif/build
  rsync -a --exclude target $R0/ $W/repo/
  (
    cd $W/verif
    sed -i "s|path = \"/repo\"|path = \"$W/repo\"|; s|path = \"$R0\"|path = \"$W/repo\"|" replay/Cargo.toml
    sed -i "s|os.path.join(\"/repo\", \"tests\"|os.path.join(\"$W/repo\", \"tests\"|" tools/dig_cases.py
    export VERIF_REPO=$W/repo
    mkdir -p out build
    k=0
    for P in refactors/*/*.diff; do
      k=$((k+1)); [ $((k % N)) -eq $i ] || continue
      git -C $W/repo apply $W/verif/$P || { echo "$P: patch does not apply"; continue; }
      FILES=$(git -C $W/repo diff --name-only | tr '\n' ' ')
      PROPS=$(python3 - "$FILES" <<'PY'
import json,glob,sys
files=sys.argv[1].split()
sel=[]
for f in sorted(glob.glob('evidence/C*.json')):
    e=json.load(open(f))
    fs={x['repo'].split(':')[0] for x in e['coverage'].get('functions_under_contract',[])}
    if any(t in fs for t in files): sel.append(e['property_id'])
print(' '.join(sel))
PY
)
      for p in $PROPS; do
        ./check $p > out/refac.log 2>&1; rc=$?
        echo "$P $p rc=$rc violations=$(grep -c '^VIOLATION' out/refac.log) $(grep -c '^UNDECIDED\|^BOUNDED-ONLY' out/refac.log | sed 's/^0$/proved/; s/^[1-9].*/bounded/')"
        grep '^VIOLATION' out/refac.log | head -2
      done
      git -C $W/repo checkout -- .
    done
  ) > $ROOT/r$i.log 2>&1 &
done
wait
cat $ROOT/r*.log | sort > $ROOT/REFACTORS.txt
echo "runs: $(grep -c 'rc=' $ROOT/REFACTORS.txt)  alarms: $(grep -c 'rc=1\|VIOLATION' $ROOT/REFACTORS.txt)  proved: $(grep -c ' proved' $ROOT/REFACTORS.txt)  bounded: $(grep -c ' bounded' $ROOT/REFACTORS.txt)"
for i in $(seq 0 $((N-1))); do rm -rf $ROOT/r$i/repo/target $ROOT/r$i/verif/build; done
