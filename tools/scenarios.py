#!/usr/bin/env python3
"""scenarios.py [--show] <property>|<file.scn>...
Bounded stand-in / witness search: runs hand-written scenarios (program + signal list + driver behaviour, with the
outcome the PROPERTY STATEMENT prescribes) against the real crate through its public API, in debug and release.
A scenario whose observed outcome differs from its expectation is a concrete failing input. Never counted as proof."""
import json, os, sys, glob, re
HERE = os.path.dirname(os.path.abspath(__file__))
sys.path.insert(0, HERE)
import run_scenario
VERIF = os.path.dirname(HERE)


def parse_expect(path):
    exp = {}
    lines = open(path).read().split("\n")
    i = 0
    while i < len(lines):
        l = lines[i].strip()
        if l == "program":
            break
        w = l.split()
        if w[:1] == ["expect"] and len(w) >= 2:
            key = w[1]
            if key in ("rows", "calls", "vars"):
                items = []
                i += 1
                while i < len(lines) and lines[i].strip() != "end":
                    items.append(lines[i].strip())
                    i += 1
                exp[key] = items
            else:
                exp.setdefault(key, []).append(" ".join(w[2:]))
        i += 1
    return exp


def _noflags(xs):
    """the `changed` mark of an input entry (`A=1*`) is only constrained one way by the statement of C06 (unflagged =>
    same value as in the previous vector), so expectations are compared without it; the rule itself is checked by
    changed_rule() for the C06 scenarios"""
    # an error item is compared as "ERR": which error type reports it is not fixed by the statements
    return None if xs is None else ["ERR" if x.startswith("ERR") else re.sub(r"(=[^ \]\*]+)\*", r"\1", x) for x in xs]


def _vec(call):
    m = re.search(r"\[(.*?)\]", call)
    d = {}
    for e in (m.group(1).split() if m else []):
        if "=" in e:
            k, v = e.split("=", 1)
            d[k] = (v.rstrip("*"), v.endswith("*"))
    return d


def changed_rule(path, o):
    """C06: an input entry that is not flagged carries the value it had in the previous vector handed to the driver;
    inputs the header omits are never flagged"""
    bad = []
    calls = o.get("calls") or []
    prog = open(path).read().split("\nprogram\n", 1)[-1]
    header = next((l.split() for l in prog.split("\n") if l.strip() and not l.strip().startswith("#")), [])
    prev = None
    for c in calls:
        v = _vec(c)
        for k, (val, flag) in v.items():
            if prev is not None and not flag and k in prev and prev[k][0] != val:
                bad.append(f"input {k}={val} is not flagged as changed but was {prev[k][0]} in the previous vector ({c})")
            # (the construction-time vector is not a row: its flags are nobody's business)
            if prev is not None and flag and k not in header:
                bad.append(f"input {k} is omitted from the header but flagged as changed ({c})")
        prev = v
    return bad


def check(path):
    """returns list of mismatch strings (empty = scenario behaves as the property prescribes)"""
    exp = parse_expect(path)
    out = run_scenario.run(path)
    bad = []
    is_c06 = os.sep + "C06" + os.sep in path
    for prof, o in out.items():
        if is_c06:
            bad += [f"{prof}: {b}" for b in changed_rule(path, o)]
        for key, want in exp.items():
            if key in ("rows", "calls"):
                if _noflags(o.get(key)) != _noflags(want):
                    bad.append(f"{prof}: {key} = {o.get(key)!r}, expected {want!r}" + (f" [outcome {o.get('outcome')}: {o.get('message','')[:120]}]" if o.get('outcome') != 'ok' else ""))
            elif key in ("vars",):
                if o.get(key) != want:
                    bad.append(f"{prof}: {key} = {o.get(key)!r}, expected {want!r}" + (f" [outcome {o.get('outcome')}: {o.get('message','')[:120]}]" if o.get('outcome') != 'ok' else ""))
            elif key == "static":
                # C15: `expect static same` = try_iter_static succeeds and yields exactly the inputs, expected values and
                # lines of this dynamic run; `expect static refused` = it refuses
                for wv in want:
                    st = o.get("static")
                    if wv == "refused":
                        if st != "refused":
                            bad.append(f"{prof}: try_iter_static did not refuse: {st!r}")
                    elif wv == "same":
                        if st != o.get("dynproj"):
                            bad.append(f"{prof}: static rows {st!r} differ from this dynamic run's {o.get('dynproj')!r}")
            elif key == "message-contains":
                for wv in want:
                    if wv not in (o.get("message") or ""):
                        bad.append(f"{prof}: message {o.get('message')!r} does not contain {wv!r}")
            elif key == "outcome-not":
                for wv in want:
                    if str(o.get("outcome")) == wv:
                        bad.append(f"{prof}: outcome is {wv} ({o.get('message','')[:160]})")
            else:
                for wv in want:
                    if str(o.get(key)).lower() != wv.lower():
                        bad.append(f"{prof}: {key} = {o.get(key)!r}, expected {wv!r}" + (f" ({o.get('message','')[:160]})" if o.get("message") else ""))
    return bad, out


def files_for(prop):
    return sorted(glob.glob(os.path.join(VERIF, "scenarios", prop, "*.scn")))


GRID_PROPS = {"C09": ("parse panic", "error location"), "C10": ("bind/iterate panic",), "C11": ("bind/iterate panic",)}


def run_grid(prop):
    """bounded exhaustive grid (replay --grid): every text of up to 3 (thorough tier: 4) alphabet items, alone and behind the
    header `A B`: no panic in parsing / binding / static iteration, error locations inside the text. Returns
    (n_texts, failure-entry or None)."""
    depth = 4 if os.environ.get("VERIF_TIER") == "thorough" else 3
    alpha = os.path.join(VERIF, "scenarios", "C09", "alphabet.txt")
    exe = os.path.join(run_scenario.TARGET, "release", "verif_replay")
    import subprocess
    try:
        p = subprocess.run([exe, "--grid", alpha, str(depth)], capture_output=True, text=True, timeout=600)
        g = json.loads((p.stdout.strip().splitlines() or ["{}"])[-1])
    except Exception as e:
        return 0, (alpha, [f"grid did not run: {e}"], {})
    mine = [f for f in g.get("failures", []) if f.startswith(GRID_PROPS[prop])]
    if mine:
        return g.get("checked", 0), (alpha, mine[:5], dict(grid=g))
    return g.get("checked", 0), None


def run_property(prop):
    """returns (n_run, [ (file, mismatches, observed) ])"""
    run_scenario.build()
    fails = []
    fs = files_for(prop)
    for f in fs:
        bad, out = check(f)
        if bad:
            fails.append((f, bad, out))
    n = len(fs)
    if prop in GRID_PROPS:
        ng, gf = run_grid(prop)
        n += ng
        if gf:
            fails.append(gf)
    # regression grid (tools/gridgen.py): a fixed generated family of scenarios per property, stored with the behaviour recorded on the
    # tree on which the contracts were proved; a difference in an observable the statements fix is reported with the scenario
    try:
        import gridgen
        if prop in gridgen.FOCI or prop in gridgen.POOL_OF:
            ng, gfails = gridgen.check(prop)
            n += ng
            os.makedirs(os.path.join(VERIF, "out", "replay"), exist_ok=True)
            for k, (i, scen, bad, obs) in enumerate(gfails[:3]):
                p = os.path.join(VERIF, "out", "replay", f"{prop}-grid-{k}.scn")
                with open(p, "w", newline="") as f:
                    f.write(scen)
                fails.append((p, [f"regression grid {prop}, case {i} ({len(gfails)} of {ng} cases differ): {b}" for b in bad], obs))
    except ImportError:
        pass
    if prop == "C16":
        # generated .dig documents (tools/dig_cases.py): the XML walk of dig::File::parse is out of reach of a contract
        import dig_cases
        nd, df = dig_cases.run(thorough=os.environ.get("VERIF_TIER") == "thorough", seed=int(os.environ.get("VERIF_SEED", "0") or 0))
        n += nd
        os.makedirs(os.path.join(VERIF, "out", "replay"), exist_ok=True)
        for k, (desc, doc, bad) in enumerate(df[:5]):
            p = os.path.join(VERIF, "out", "replay", f"C16-doc-{k}.dig")
            with open(p, "w") as f:
                f.write(doc)
            fails.append((p, bad, dict(description=desc, reproduce=f"build/replay-target/release/verif_replay --dig load {p}")))
    return n, fails


if __name__ == "__main__":
    show = "--show" in sys.argv
    args = [a for a in sys.argv[1:] if not a.startswith("--")]
    run_scenario.build()
    rc = 0
    for a in args:
        fs = [a] if a.endswith(".scn") else files_for(a)
        for f in fs:
            bad, out = check(f)
            print(("FAIL " if bad else "ok   ") + os.path.relpath(f, VERIF))
            if show or bad:
                for k, v in out.items():
                    print("      ", k, json.dumps(v)[:1200])
            for b in bad:
                print("       !!", b[:600])
                rc = 1
    sys.exit(rc)
