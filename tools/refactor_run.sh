#!/bin/bash
# refactor_run.sh <patch.diff>: apply a (supposedly behaviour-preserving) patch to /repo, run the checks of every property
# that has a function in a touched file under contract, report VIOLATION / UNDECIDED / BOUNDED-ONLY lines and exit codes,
# then restore /repo and the committed evidence.
P=$(readlink -f $1)
cd /repo && git status --short | grep -q . && { echo "/repo not clean"; exit 2; }
git apply $P || exit 2
FILES=$(git diff --name-only | tr '\n' ' ')
cd /verif
PROPS=$(python3 - "$FILES" <<'PY'
import json,glob,sys
files=sys.argv[1].split()
sel=[]
for f in sorted(glob.glob('/verif/evidence/C*.json')):
    e=json.load(open(f))
    fs={x['repo'].split(':')[0] for x in e['coverage'].get('functions_under_contract',[])}
    if any(t in fs for t in files): sel.append(e['property_id'])
print(' '.join(sel))
PY
)
echo "touched: $FILES -> checks: $PROPS"
for p in $PROPS; do
  ./check $p > out/refac_$p.log 2>&1; rc=$?
  echo "$p rc=$rc $(grep -c '^VIOLATION' out/refac_$p.log) violation(s) $(grep '^UNDECIDED\|^BOUNDED-ONLY' out/refac_$p.log | cut -c1-160 | tr '\n' '|')"
  grep '^VIOLATION' out/refac_$p.log | head -3
done
git -C /repo checkout -- .
git -C /verif checkout -- evidence/ 2>/dev/null
