#!/usr/bin/env python3
"""setup: nothing to download; check the tools exist and pre-build the replay binary (best effort)"""
import os, shutil, subprocess, sys
V = os.path.dirname(os.path.dirname(os.path.abspath(__file__)))
for t in ("verus", "cargo"):
    if not shutil.which(t):
        print("missing tool", t); sys.exit(1)
os.makedirs(os.path.join(V, "build"), exist_ok=True)
os.makedirs(os.path.join(V, "out", "replay"), exist_ok=True)
try:
    sys.path.insert(0, os.path.join(V, "tools"))
    import run_scenario
    run_scenario.build()
    print("replay binary built")
except BaseException as e:
    print("replay binary not built (checks still work; replays will rebuild):", str(e)[:300])
print("setup ok")
