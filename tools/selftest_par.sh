#!/bin/bash
# selftest_par.sh <scratch-root> <n>: the selftest of all seeded changes with n workers, each on its own copy of the repo snapshot
# ($VP_RUN_REPO) and of this verif snapshot (for `vp run --with-repo`)
ROOT=$1; N=$2
R0=${VP_RUN_REPO:?}
V0=$(cd "$(dirname "$0")/.." && pwd)
mkdir -p $ROOT
for i in $(seq 0 $((N-1))); do
  W=$ROOT/s$i; rm -rf $W; mkdir -p $W
  cp -r $V0 $W/verif; rm -rf $W/verif/build
  rsync -a --exclude target $R0/ $W/repo/
  (
    cd $W/verif
    sed -i "s|path = \"/repo\"|path = \"$W/repo\"|; s|path = \"$R0\"|path = \"$W/repo\"|" replay/Cargo.toml
    sed -i "s|os.path.join(\"/repo\", \"tests\"|os.path.join(\"$W/repo\", \"tests\"|" tools/dig_cases.py
    export VERIF_REPO=$W/repo
    mkdir -p out build
    k=0
    for d in seeded/*/; do
      k=$((k+1)); [ $((k % N)) -eq $i ] || continue
      s=$(basename $d)
      props=$(python3 -c "import json;m=json.load(open('$d/meta.json'));print((m.get('checks_run') or m['property']).replace(',',' '))")
      [ "$s" = "C15-b" ] && props="C04 C18 C15"
      git -C $W/repo apply $W/verif/$d/patch.diff || { echo "$s: patch does not apply"; continue; }
      for p in $props; do
        ./check $p > out/self_${s}_$p.log 2>&1; rc=$?
        v=$(grep -c '^VIOLATION' out/self_${s}_$p.log); u=$(grep -c '^UNDECIDED' out/self_${s}_$p.log)
        route="verus"; [ $u -gt 0 ] && route="bounded (verus undecided)"; [ $v -eq 0 ] && route="-"
        echo "$s $p rc=$rc violations=$v route=$route"
      done
      git -C $W/repo checkout -- .
    done
  ) > $ROOT/s$i.log 2>&1 &
done
wait
cat $ROOT/s*.log | sort > $ROOT/SELFTEST.txt
grep -c "" $ROOT/SELFTEST.txt; grep "route=-" $ROOT/SELFTEST.txt
for i in $(seq 0 $((N-1))); do rm -rf $ROOT/s$i/repo/target $ROOT/s$i/verif/build; done
