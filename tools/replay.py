"""Replay support: turns a failed obligation into a replay file and, where a witness generator exists
for the obligation, into a concrete input executed against the real crate (public API)."""
import json
import os


def make_replay(prop, failure, path):
    """write the replay file; return the VIOLATION-line suffix ('' if a failing input was found)"""
    doc = dict(property=prop,
               failed_obligation=dict(unit=failure.get("unit"), function=failure.get("fn"), kind=failure.get("kind"),
                                      clause_tags=failure.get("tags"), clause=failure.get("clause"),
                                      repo_location=failure.get("repo_loc"), highlighted=failure.get("highlight")),
               verifier="verus 0.2026.09.13 (z3)",
               verifier_message=failure.get("message"),
               verifier_output=failure.get("rendered"),
               failing_input=None,
               note="no-failing-input-found: Verus gives no counterexample; no witness generator is registered for this obligation")
    suffix = "no-failing-input-found"
    try:
        import witness
        w = witness.find(prop, failure)
        if w:
            doc["failing_input"] = w
            doc["note"] = "failing input found by the twin back end / boundary witness search and replayed on the real crate"
            suffix = ""
    except ImportError:
        pass
    os.makedirs(os.path.dirname(path), exist_ok=True)
    with open(path, "w") as f:
        json.dump(doc, f, indent=1)
    return suffix
