"""Replay support: turns a failed obligation into a replay file and, where a witness generator exists
for the obligation, into a concrete input executed against the real crate (public API)."""
import json
import os


def make_replay(prop, failure, path, scen_fail=None, kani=None):
    """write the replay file; return the VIOLATION-line suffix ('' if a failing input was found)"""
    doc = dict(property=prop,
               failed_obligation=dict(unit=failure.get("unit"), function=failure.get("fn"), kind=failure.get("kind"),
                                      clause_tags=failure.get("tags"), clause=failure.get("clause"),
                                      repo_location=failure.get("repo_loc"), highlighted=failure.get("highlight")),
               verifier="verus 0.2026.09.13 (z3)",
               verifier_message=failure.get("message"),
               verifier_output=failure.get("rendered"),
               failing_input=None,
               note="no-failing-input-found: Verus gives no counterexample; no witness generator is registered for this obligation")
    suffix = "no-failing-input-found"
    if scen_fail:
        f, bad, out = scen_fail[0]
        doc["failing_input"] = dict(kind="scenario (bounded witness search, public API, debug+release)",
                                    file=os.path.relpath(f, os.path.dirname(os.path.dirname(os.path.abspath(__file__)))),
                                    scenario=open(f).read(), observed=out, mismatches=bad,
                                    other_failing_scenarios=[os.path.basename(x[0]) for x in scen_fail[1:]])
        doc["note"] = ("failing input: the scenario below (program + signal list + driver behaviour) was replayed on the real crate; "
                       "its observed outcome differs from what the property statement prescribes")
        suffix = ""
    if kani:
        # a concrete counterexample from the Kani twin of the failing leaf function, replayed on the real crate
        doc["kani_counterexample"] = kani
        if kani.get("replay", {}).get("confirmed_on_real_code"):
            if doc["failing_input"] is None:
                doc["failing_input"] = dict(kind="kani counterexample replayed through the public API (debug+release)", **kani)
            doc["note"] = ("failing input: Kani's counterexample for the leaf function, written as a test program and run on the real crate; "
                           "the observed value differs from the reference value computed from the statement")
            suffix = ""
    os.makedirs(os.path.dirname(path), exist_ok=True)
    with open(path, "w") as f:
        json.dump(doc, f, indent=1)
    return suffix
