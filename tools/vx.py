#!/usr/bin/env python3
"""vx -- mechanical extractor / contract splicer (DESIGN.md section 3.2).

Reads contract library files (contracts/*.vc) and a unit template (units/<unit>.rs), extracts the
named items *verbatim* from /repo on every run, splices contract text at structural anchors and
writes one Verus file plus an origin map (generated offset -> repo file:line | contract file:line).

Only ghost text is ever added to a function body (clauses, proof blocks, closure parameter types);
the declared normalisations (N1..N8) are counted and reported. A lost anchor raises LostAnchor
(the caller turns that into exit 2 = undecided, never a violation).
"""
import hashlib
import json
import os
import re
import sys

sys.path.insert(0, os.path.dirname(os.path.abspath(__file__)))
from rustlex import (COMMENT, IDENT, LIT, PUNCT, WS, LexError, SourceFile, norm,  # noqa: E402
                     tokenize)

VERIF = os.path.dirname(os.path.dirname(os.path.abspath(__file__)))
REPO = os.environ.get("VERIF_REPO", "/repo")


class LostAnchor(Exception):
    pass


# ------------------------------------------------------------------------------------------------
# contract library
# ------------------------------------------------------------------------------------------------

class Block:
    def __init__(self, kind, arg, file, line):
        self.kind, self.arg, self.file, self.line = kind, arg, file, line
        self.lines = []  # (text, lineno)

    def text(self):
        return "".join(t for t, _ in self.lines)


class Entry:
    def __init__(self, id_, file, container, fn, vcfile, line):
        self.id, self.file, self.container, self.fn = id_, file, container, fn
        self.vcfile, self.line = vcfile, line
        self.own = []
        self.attrs = []
        self.ret = None
        self.blocks = []  # Block list: sig / loop / closure / before / after / wraptail
        self.deref = []
        self.subst = []  # (from, to, tag)
        self.callrewrite = []  # (method, function path, tag)
        self.sigsubst = []
        self.tryexpand = []
        self.selfparam = None
        self.nocanary = None
        self.rename = None
        self.fragment = None  # (start snippet, header text `name(params) -> Ret`)

    def block(self, kind):
        return [b for b in self.blocks if b.kind == kind]


def parse_vc(path):
    entries = {}
    cur, blk = None, None
    with open(path) as f:
        for ln, raw in enumerate(f, 1):
            s = raw.strip()
            if s.startswith("//@"):
                d = s[3:].strip()
                word = d.split()[0] if d else ""
                rest = d[len(word):].strip()
                if word == "def":
                    m = re.match(r"(\S+)\s*=\s*(\S+)\s*\|\s*(.*?)\s*\|\s*(\S+)$", rest)
                    if not m:
                        raise SystemExit(f"{path}:{ln}: bad //@def")
                    cur = Entry(m.group(1), m.group(2), m.group(3), m.group(4), path, ln)
                    if cur.id in entries:
                        raise SystemExit(f"{path}:{ln}: duplicate entry {cur.id}")
                    entries[cur.id] = cur
                    blk = None
                elif word == "end":
                    cur, blk = None, None
                elif cur is None:
                    raise SystemExit(f"{path}:{ln}: directive outside //@def: {s}")
                elif word == "own":
                    cur.own = rest.split()
                elif word == "attr":
                    cur.attrs.append(rest)
                elif word == "ret":
                    cur.ret = rest
                elif word == "deref":
                    cur.deref += rest.split()
                elif word == "rename":
                    cur.rename = rest
                elif word == "fragment":
                    m = re.match(r'"(.*)"\s*=>\s*(\w+)\s*(\(.*\))\s*->\s*(.*)$', rest)
                    if not m:
                        raise SystemExit(f"{path}:{ln}: //@fragment needs '\"first statement\" => name(params) -> Ret'")
                    cur.fragment = (m.group(1).replace('\\"', '"'), m.group(2), m.group(3), m.group(4).strip())
                elif word == "nocanary":
                    cur.nocanary = rest or "unspecified"
                elif word == "selfparam":
                    cur.selfparam = rest.strip() or "this"
                elif word == "tryexpand":
                    m = re.match(r'"(.*)"\s*(?:#(\d+))?$', rest)
                    if not m or not m.group(1).rstrip().endswith("?"):
                        raise SystemExit(f"{path}:{ln}: //@tryexpand needs a quoted snippet ending in ?")
                    cur.tryexpand.append((m.group(1), int(m.group(2) or 1)))
                elif word == "sigsubst":
                    m = re.match(r'"(.*)"\s*=>\s*"(.*)"\s*(#\S+)?$', rest)
                    if not m:
                        raise SystemExit(f"{path}:{ln}: bad //@sigsubst")
                    cur.sigsubst.append((m.group(1), m.group(2), m.group(3) or "#N2"))
                elif word == "callrewrite":
                    a = rest.split()
                    cur.callrewrite.append((a[0], a[1], a[2] if len(a) > 2 else "#N9"))
                elif word in ("subst", "subst?"):
                    allflag = False
                    if rest.rstrip().endswith(" all"):
                        allflag = True
                        rest = rest.rstrip()[:-4].rstrip()
                    m = re.match(r'"(.*)"\s*=>\s*"(.*)"\s*(#\S+)?$', rest)
                    if not m:
                        raise SystemExit(f"{path}:{ln}: bad //@subst")
                    cur.subst.append((m.group(1).replace('\\"', '"'), m.group(2).replace('\\"', '"'), (m.group(3) or "#N?") + ("*" if allflag else "") + ("?" if word == "subst?" else "")))
                elif word in ("sig", "loop", "loopstart", "loopend", "afterloop", "closure", "before", "after", "wraptail", "armstart", "armend", "bodystart", "afterstmt", "tryproof"):
                    blk = Block(word, rest, path, ln)
                    cur.blocks.append(blk)
                else:
                    raise SystemExit(f"{path}:{ln}: unknown directive {word}")
            else:
                if cur is not None and blk is not None:
                    blk.lines.append((raw, ln))
                elif cur is not None and s and not s.startswith("//"):
                    raise SystemExit(f"{path}:{ln}: text outside a block in entry {cur.id}")
    return entries


def load_library():
    lib = {}
    d = os.path.join(VERIF, "contracts")
    for fn in sorted(os.listdir(d)):
        if fn.endswith(".vc"):
            for k, v in parse_vc(os.path.join(d, fn)).items():
                if k in lib:
                    raise SystemExit(f"duplicate contract entry {k}")
                lib[k] = v
    return lib


# ------------------------------------------------------------------------------------------------
# output with origin map
# ------------------------------------------------------------------------------------------------

class Out:
    def __init__(self):
        self.parts = []  # (text, origin dict)
        self.len = 0

    def add(self, text, **origin):
        if text:
            self.parts.append((text, origin))
            self.len += len(text)

    def text(self):
        return "".join(t for t, _ in self.parts)

    def origin_map(self):
        m, off = [], 0
        for t, o in self.parts:
            d = dict(o)
            d["start"], d["end"] = off, off + len(t)
            d["nl"] = [i for i, c in enumerate(t) if c == "\n"]
            m.append(d)
            off += len(t)
        return m


_src_cache = {}


def source(relpath):
    p = os.path.join(REPO, relpath)
    if p not in _src_cache:
        if not os.path.exists(p):
            raise LostAnchor(f"file {relpath} not found")
        try:
            _src_cache[p] = SourceFile(relpath, open(p).read())
        except LexError as e:
            raise LostAnchor(f"cannot scan {relpath}: {e}")
    return _src_cache[p]


SPEC_KW = ("requires", "ensures", "returns", "decreases", "recommends", "invariant", "invariant_except_break",
           "opens_invariants", "no_unwind")


def add_false_ensures(sig_text):
    """insert `false,` as an extra ensures clause (canary)"""
    lines = sig_text.split("\n")
    ens = None
    for i, l in enumerate(lines):
        w = l.strip().split("(")[0].split(" ")[0].rstrip(",")
        if w == "ensures":
            ens = i
    if ens is None:
        # put before decreases if any
        for i, l in enumerate(lines):
            if l.strip().startswith("decreases"):
                lines.insert(i, "    ensures false,")
                return "\n".join(lines)
        return sig_text.rstrip("\n") + "\n    ensures false,\n"
    # end of ensures section
    j = ens + 1
    while j < len(lines):
        w = lines[j].strip().split(" ")[0].rstrip(",")
        if w in SPEC_KW:
            break
        j += 1
    # last non-empty line of the section must end with ','
    k = j - 1
    while k > ens and not lines[k].strip():
        k -= 1
    body = lines[k].split("//")[0].rstrip()
    if body and not body.endswith(",") and body.strip() != "ensures":
        lines[k] = lines[k] + " ,"
    lines.insert(j, "        false,")
    return "\n".join(lines)


def find_snippet(sf, lo, hi, snippet, occ=1):
    """token indices (first, last) of the occ-th occurrence of snippet (token-wise) in toks[lo:hi]"""
    want = [t.text for t in tokenize(snippet) if t.kind not in (WS, COMMENT)]
    sig = [i for i in range(lo, hi) if sf.toks[i].kind not in (WS, COMMENT)]
    found = 0
    for a in range(len(sig) - len(want) + 1):
        if all(sf.toks[sig[a + k]].text == want[k] for k in range(len(want))):
            found += 1
            if found == occ:
                return sig[a], sig[a + len(want) - 1]
    return None


CLOSURE_PREV = {"(", ",", "=", "{", ";", "=>", "return", "move", "[", ":"}
BINOPS = {"+", "-", "*", "/", "%", "&", "|", "^", "<", ">", "==", "!=", "<=", ">=", "&&", "||"}


MODS = None


def repo_modules():
    global MODS
    if MODS is None:
        MODS = set()
        for root, dirs, files in os.walk(os.path.join(REPO, "src")):
            for f in files:
                if f.endswith(".rs"):
                    MODS.add(f[:-3])
            for d in dirs:
                MODS.add(d)
    return MODS


def strip_module_paths(text, stats):
    """N13: `crate::<module>::Item` -> `Item` (a single-file unit has every item in the crate root)"""
    mods = "|".join(sorted(repo_modules(), key=len, reverse=True))
    pat = re.compile(r"\bcrate\s*::\s*(?:(?:%s)\s*::\s*)+" % mods)
    new, n = pat.subn("", text)
    if n:
        stats.count("N13", n)
    return new


class Stats:
    def __init__(self):
        self.norm = {}
        self.functions = []
        self.items = []

    def count(self, key, n=1):
        self.norm[key] = self.norm.get(key, 0) + n


def emit_fn(out, entry, mode, stats, canary=False):
    sf = source(entry.file)
    cands = sf.find_fn(entry.container, entry.fn)
    if len(cands) != 1:
        raise LostAnchor(f"{entry.id}: fn {entry.fn} in [{entry.container}] of {entry.file}: {len(cands)} matches")
    cont, it = cands[0]
    toks, br = sf.toks, sf.br
    if it.body_open is None:
        raise LostAnchor(f"{entry.id}: function has no body")
    kw, bo, last = it.kw, it.body_open, it.last
    sig = [i for i in range(kw, bo) if toks[i].kind not in (WS, COMMENT)]
    # ---- signature analysis
    name_i = sig[1]
    ang = 0
    popen = None
    for i in sig[2:]:
        t = toks[i]
        if t.text == "<":
            ang += 1
        elif t.text == ">":
            ang -= 1
        elif t.text == "(" and ang == 0:
            popen = i
            break
    if popen is None:
        raise LostAnchor(f"{entry.id}: cannot find parameter list")
    pclose = br[popen]
    after = [i for i in sig if i > pclose]
    ret_lo = ret_hi = None
    where_i = None
    for i in after:
        if toks[i].kind == IDENT and toks[i].text == "where":
            where_i = i
            break
    if after and toks[after[0]].text == "->":
        ret_lo = after[1]
        ret_hi = (where_i if where_i is not None else bo)  # exclusive token index
    # edits: list of (tok_lo, tok_hi_exclusive, replacement_text, origin) ; insertion when lo == hi
    edits = []

    def vc_origin(b):
        return dict(kind="vc", file=os.path.relpath(b.file, VERIF), line=(b.lines[0][1] if b.lines else b.line),
                    fn=entry.id, block=b.kind + (" " + b.arg if b.arg else ""))

    blo = bo + 1  # first token of the text under contract
    if entry.fragment:
        # N23: the function under contract is the TAIL of the repository function, from the statement that starts with the
        # given snippet to the closing brace; what comes before it (and the original signature) is dropped and the free
        # variables of the tail become parameters, with the types written in the directive. Every parameter must be bound by
        # a `let` in the dropped part (checked here); if a declared type is not the one rustc infers the unit does not compile.
        snip, fname, fparams, fret = entry.fragment
        r_ = find_snippet(sf, blo, last, snip)
        if r_ is None:
            raise LostAnchor(f"{entry.id}: fragment start {snip!r} not found")
        blo = r_[0]
        for pm in re.finditer(r"(?:^|[(,])\s*(?:mut\s+)?(\w+)\s*:", fparams):
            if find_snippet(sf, bo + 1, blo, "let " + pm.group(1)) is None and find_snippet(sf, bo + 1, blo, "let mut " + pm.group(1)) is None:
                raise LostAnchor(f"{entry.id}: fragment parameter {pm.group(1)} is not bound by a let in the dropped part")
        sigb_ = entry.block("sig")
        sig_text_ = sigb_[0].text() if sigb_ else ""
        if canary:
            sig_text_ = add_false_ensures(sig_text_)
        rt = f"({entry.ret}: {fret})" if entry.ret else fret
        hdr = f"fn {fname}{'__canary' if canary else ''}{fparams} -> {rt}\n"
        edits.append((kw, kw, hdr, dict(kind="gen", fn=entry.id, norm="N23")))
        o_ = vc_origin(sigb_[0]) if sigb_ else dict(kind="gen", fn=entry.id)
        edits.append((kw, blo, sig_text_.rstrip("\n") + "\n{\n", o_))
        stats.count("N23")
    if entry.fragment:
        pass
    elif entry.ret and ret_lo is not None:
        # wrap return type
        rt_last = max(i for i in range(ret_lo, ret_hi) if toks[i].kind not in (WS, COMMENT))
        edits.append((ret_lo, ret_lo, f"({entry.ret}: ", dict(kind="gen", fn=entry.id)))
        edits.append((rt_last + 1, rt_last + 1, ")", dict(kind="gen", fn=entry.id)))
    sigb = entry.block("sig")
    sig_text = sigb[0].text() if sigb else ""
    if canary:
        sig_text = add_false_ensures(sig_text)
    if sig_text.strip() and not entry.fragment:
        o = vc_origin(sigb[0]) if sigb else dict(kind="gen", fn=entry.id)
        edits.append((bo, bo, "\n" + sig_text.rstrip("\n") + "\n", o))
    if (entry.rename or canary) and not entry.fragment:
        newname = (entry.rename or entry.fn) + ("__canary" if canary else "")
        edits.append((name_i, name_i + 1, newname, dict(kind="gen", fn=entry.id)))

    for frm, to, tag in entry.sigsubst:
        r_ = find_snippet(sf, kw, bo, frm)
        if r_ is None:
            raise LostAnchor(f"{entry.id}: sigsubst source {frm!r} not found")
        edits.append((r_[0], r_[1] + 1, to, dict(kind="gen", fn=entry.id, norm=tag)))
        stats.count(tag.lstrip("#"))
    if entry.selfparam:
        # N21: Verus has no `mut self` receivers: `fn f(mut self, ..)` => `fn f(mut this: Self, ..)`, `self` => `this` in the body
        ps = [i for i in sig if popen < i < pclose]
        if not (len(ps) >= 2 and toks[ps[0]].text == "mut" and toks[ps[1]].text == "self"):
            raise LostAnchor(f"{entry.id}: receiver is not `mut self`")
        edits.append((ps[1], ps[1] + 1, f"{entry.selfparam}: Self", dict(kind="gen", fn=entry.id, norm="N21")))
        entry._rename_self = True
        stats.count("N21")
    prefix = ""
    for a in entry.attrs:
        prefix += a + "\n"
    if mode == "decl":
        prefix += "#[verifier::external_body]\n"
    # ---- body
    n_loops = n_closures = None
    if mode == "decl":
        edits.append((bo, last + 1, "{ unimplemented!() }", dict(kind="gen", fn=entry.id)))
    else:
        body = [i for i in range(blo, last) if toks[i].kind not in (WS, COMMENT)]
        # loops
        loops = []
        for i in body:
            t = toks[i]
            if t.kind == IDENT and t.text in ("loop", "while", "for"):
                # expression-position check for `for`: previous token is not `impl ... for`
                j = i + 1
                brace = None
                while j < last:
                    tj = toks[j]
                    if tj.kind == PUNCT and tj.text in ("(", "["):
                        j = br[j] + 1
                        continue
                    if tj.kind == PUNCT and tj.text == "{":
                        brace = j
                        break
                    if tj.kind == PUNCT and tj.text == ";":
                        break
                    j += 1
                if brace is not None:
                    loops.append((i, brace))
        for b in entry.block("loop"):
            k = int(b.arg.split()[0])
            if k < 1 or k > len(loops):
                raise LostAnchor(f"{entry.id}: loop#{k} not found ({len(loops)} loops)")
            edits.append((loops[k - 1][1], loops[k - 1][1], "\n" + b.text().rstrip("\n") + "\n", vc_origin(b)))
            if "enumerate" in b.arg.split():
                # N19: `for (I, X) in E.iter().enumerate() {` => `for I in 0..E.len() { let X = &E[I];`
                # (the definition of slice::Iter + Enumerate: indices from 0, elements in order). The body stays verbatim.
                kw_i, brace = loops[k - 1]
                hdr = [x for x in range(kw_i + 1, brace) if toks[x].kind not in (WS, COMMENT)]
                txt = [toks[x].text for x in hdr]
                ok = len(txt) >= 12 and txt[0] == "(" and txt[2] == "," and txt[4] == ")" and txt[5] == "in" and txt[-7:] == [".", "iter", "(", ")", ".", "enumerate", "("][0:7] if False else None
                tail = [".", "iter", "(", ")", ".", "enumerate", "(", ")"]
                if not (len(txt) > 6 + len(tail) and txt[0] == "(" and txt[2] == "," and txt[4] == ")" and txt[5] == "in" and txt[-len(tail):] == tail):
                    raise LostAnchor(f"{entry.id}: loop#{k} is not `for (i, x) in E.iter().enumerate()`")
                ivar, xvar = txt[1], txt[3]
                e_first, e_last = hdr[6], hdr[-len(tail) - 1]
                etext = "".join(t.text for t in toks[e_first:e_last + 1])
                m_it2 = re.search(r"iter=(\w+)", b.arg)
                itname = (m_it2.group(1) + ": ") if m_it2 else ""
                edits.append((hdr[0], hdr[-1] + 1, f"{ivar} in {itname}0..{etext}.len() ", dict(kind="gen", fn=entry.id, norm="N19")))
                edits.append((brace + 1, brace + 1, f" let {xvar} = &{etext}[{ivar}];", dict(kind="gen", fn=entry.id, norm="N19")))
                stats.count("N19")
                b.arg = re.sub(r"iter=\w+", "", b.arg)
            if "tailcontinue" in b.arg:
                # N16: Verus for-loops do not support `continue`. A `continue` that is the value of a match arm of the
                # LAST statement of the loop body is equivalent to `{}`; anything else is refused.
                lb_open = loops[k - 1][1]
                lb_close = br[lb_open]
                for ci in range(lb_open + 1, lb_close):
                    if toks[ci].kind == IDENT and toks[ci].text == "continue":
                        # innermost enclosing brace block
                        depth_open = None
                        for oi in range(ci, lb_open, -1):
                            if toks[oi].kind == PUNCT and toks[oi].text == "{" and br[oi] > ci:
                                depth_open = oi
                                break
                        if depth_open is None or depth_open == lb_open:
                            raise LostAnchor(f"{entry.id}: loop#{k}: continue is not inside a match of the tail statement")
                        after = [x for x in range(br[depth_open] + 1, lb_close) if toks[x].kind not in (WS, COMMENT) and toks[x].text != ";"]
                        prevs = [x for x in range(lb_open + 1, ci) if toks[x].kind not in (WS, COMMENT)]
                        if after or not prevs or toks[prevs[-1]].text != "=>":
                            raise LostAnchor(f"{entry.id}: loop#{k}: continue is not in tail position")
                        edits.append((ci, ci + 1, "{}", dict(kind="gen", fn=entry.id, norm="N16")))
                        stats.count("N16")
            m_dr = re.search(r"deref=(\w+)", b.arg)
            if m_dr:
                # N15: `for &x in E {` => `for verif_ref_x in E { let x = *verif_ref_x;`  (Verus has no ref patterns)
                kw_i = loops[k - 1][0]
                v = m_dr.group(1)
                j = kw_i + 1
                while toks[j].kind in (WS, COMMENT):
                    j += 1
                j2 = j + 1
                while toks[j2].kind in (WS, COMMENT):
                    j2 += 1
                if not (toks[kw_i].text == "for" and toks[j].text == "&" and toks[j2].text == v):
                    raise LostAnchor(f"{entry.id}: loop#{k} is not `for &{v} in ..`")
                edits.append((j, j2 + 1, f"verif_ref_{v}", dict(kind="gen", fn=entry.id, norm="N15")))
                edits.append((loops[k - 1][1] + 1, loops[k - 1][1] + 1, f" let {v} = *verif_ref_{v};", dict(kind="gen", fn=entry.id, norm="N15")))
                stats.count("N15")
            m_it = re.search(r"iter=(\w+)", b.arg)
            if m_it:
                kw_i = loops[k - 1][0]
                if toks[kw_i].text != "for":
                    raise LostAnchor(f"{entry.id}: loop#{k} is not a for loop (iter= given)")
                j = kw_i + 1
                in_i = None
                while j < loops[k - 1][1]:
                    tj = toks[j]
                    if tj.kind == PUNCT and tj.text in ("(", "[", "{"):
                        j = br[j] + 1
                        continue
                    if tj.kind == IDENT and tj.text == "in":
                        in_i = j
                        break
                    j += 1
                if in_i is None:
                    raise LostAnchor(f"{entry.id}: loop#{k}: no `in`")
                edits.append((in_i + 1, in_i + 1, f" {m_it.group(1)}:", dict(kind="gen", fn=entry.id)))
        # loopstart k: ghost text at the very start of the body of the k-th loop (a structural anchor: it does not quote the body)
        for b in entry.block("loopstart"):
            k = int(b.arg.split()[0])
            if k < 1 or k > len(loops):
                raise LostAnchor(f"{entry.id}: loop#{k} not found ({len(loops)} loops)")
            edits.append((loops[k - 1][1] + 1, loops[k - 1][1] + 1, "\n" + b.text().rstrip("\n") + "\n", vc_origin(b)))
        # loopend k / afterloop k: ghost text at the very end of the body of the k-th loop / right behind the loop (structural anchors:
        # they do not quote a statement, so an edit of the body cannot lose them)
        for b in entry.block("loopend") + entry.block("afterloop"):
            k = int(b.arg.split()[0])
            if k < 1 or k > len(loops):
                raise LostAnchor(f"{entry.id}: loop#{k} not found ({len(loops)} loops)")
            close = br[loops[k - 1][1]]
            pos = close if b.kind == "loopend" else close + 1
            edits.append((pos, pos, "\n" + b.text().rstrip("\n") + "\n", vc_origin(b)))
        # closures
        closures = []
        for n, i in enumerate(body):
            t = toks[i]
            if t.kind == PUNCT and t.text in ("|", "||"):
                prev = toks[body[n - 1]].text if n > 0 else "{"
                if prev not in CLOSURE_PREV:
                    continue
                if closures and i <= closures[-1][1]:
                    continue  # this is the closing bar of the previous closure header
                if t.text == "||":
                    pend = i
                else:
                    pend = None
                    for m_ in body[n + 1:]:
                        if toks[m_].kind == PUNCT and toks[m_].text == "|":
                            pend = m_
                            break
                        if toks[m_].kind == PUNCT and toks[m_].text in ("(", "[", "{"):
                            pass
                    if pend is None:
                        continue
                # optional -> type
                rest = [x for x in body if x > pend]
                hdr_end = pend
                if rest and toks[rest[0]].text == "->":
                    # up to the '{'
                    for x in rest:
                        if toks[x].text == "{":
                            hdr_end = x - 1
                            while toks[hdr_end].kind in (WS, COMMENT):
                                hdr_end -= 1
                            break
                rest = [x for x in body if x > hdr_end]
                if not rest:
                    continue
                b0 = rest[0]
                if toks[b0].text == "{":
                    bl, bh, block = b0, br[b0], True
                else:
                    # expression body: until ',' ';' or unmatched close at depth 0
                    j = b0
                    bh = None
                    while j < last:
                        tj = toks[j]
                        if tj.kind == PUNCT and tj.text in ("(", "[", "{"):
                            j = br[j] + 1
                            continue
                        if tj.kind == PUNCT and tj.text in (")", "]", "}", ",", ";"):
                            bh = j - 1
                            break
                        j += 1
                    if bh is None:
                        bh = last - 1
                    while toks[bh].kind in (WS, COMMENT):
                        bh -= 1
                    bl, block = b0, False
                closures.append((i, hdr_end, bl, bh, block))
        n_loops, n_closures = len(loops), len(closures)
        for b in entry.block("closure"):
            m = re.match(r"(\d+)\s+(.*)$", b.arg)
            if not m:
                raise SystemExit(f"{b.file}:{b.line}: //@closure needs '<k> <header>'")
            k = int(m.group(1))
            if k < 1 or k > len(closures):
                raise LostAnchor(f"{entry.id}: closure#{k} not found ({len(closures)} closures)")
            c0, c1, bl, bh, block = closures[k - 1]
            hdr = m.group(2)
            move = ""
            prelude = ""
            mp = re.match(r"pat=(\w+|\([\w,]+\))\s+(.*)$", hdr)
            if mp:
                # N14: Verus accepts only variables as closure parameters: `|PAT| body` => `|v: T| { let PAT = v; body }`
                hdr = mp.group(2)
                if toks[c0].text != "|":
                    raise LostAnchor(f"{entry.id}: closure#{k} has no parameter to destructure")
                # original parameter text between the bars
                bar2 = None
                for x in range(c0 + 1, c1 + 1):
                    if toks[x].kind == PUNCT and toks[x].text == "|":
                        bar2 = x
                        break
                orig = "".join(t.text for t in toks[c0 + 1:bar2]).strip()
                prelude = f"let ({orig}) = {mp.group(1)}; " if mp.group(1).startswith("(") else f"let {orig} = {mp.group(1)}; "
                stats.count("N14")
            edits.append((c0, c1 + 1, move + hdr + "\n" + b.text().rstrip("\n") + "\n", vc_origin(b)))
            if not block:
                edits.append((bl, bl, "{ " + prelude, dict(kind="gen", fn=entry.id)))
                edits.append((bh + 1, bh + 1, " }", dict(kind="gen", fn=entry.id)))
            elif prelude:
                edits.append((bl + 1, bl + 1, " " + prelude, dict(kind="gen", fn=entry.id)))
        # before / after
        for b in entry.block("before") + entry.block("after"):
            m = re.match(r'"(.*)"\s*(?:#(\d+))?$', b.arg)
            if not m:
                raise SystemExit(f"{b.file}:{b.line}: //@{b.kind} needs a quoted snippet")
            r = find_snippet(sf, blo, last, m.group(1).replace('\\"', '"'), int(m.group(2) or 1))
            if r is None:
                raise LostAnchor(f"{entry.id}: snippet {m.group(1)!r} not found")
            pos = r[0] if b.kind == "before" else r[1] + 1
            edits.append((pos, pos, "\n" + b.text().rstrip("\n") + "\n", vc_origin(b)))
        # armstart / armend: ghost text at the start / end of the block of the match arm whose pattern is the snippet
        for b in entry.block("armstart") + entry.block("armend"):
            m = re.match(r'"(.*)"\s*(?:#(\d+))?$', b.arg)
            if not m:
                raise SystemExit(f"{b.file}:{b.line}: //@{b.kind} needs a quoted arm pattern")
            r = find_snippet(sf, blo, last, m.group(1).replace('\\"', '"'), int(m.group(2) or 1))
            if r is None:
                raise LostAnchor(f"{entry.id}: arm {m.group(1)!r} not found")
            j = r[1] + 1
            while toks[j].kind in (WS, COMMENT):
                j += 1
            if toks[j].text != "{":
                raise LostAnchor(f"{entry.id}: arm {m.group(1)!r} is not followed by a block")
            pos = j + 1 if b.kind == "armstart" else br[j]
            edits.append((pos, pos, "\n" + b.text().rstrip("\n") + "\n", vc_origin(b)))
        # subst (declared normalisations); `$n` holes stand for the whole content of a bracket pair and stay verbatim
        for frm, to, tag in entry.subst:
            optional = tag.endswith("?")
            tag = tag.rstrip("?")
            fparts = re.split(r"(\$\d)", frm)
            tparts = re.split(r"(\$\d)", to)
            if [x for x in fparts if x.startswith("$")] != [x for x in tparts if x.startswith("$")]:
                raise SystemExit(f"{entry.id}: holes of //@subst differ between pattern and replacement")
            if len(fparts) == 1:
                want_all_ = tag.endswith("*")
                tag = tag.rstrip("*")
                occ = 1
                while True:
                    r = find_snippet(sf, blo, last, frm, occ)
                    if r is None:
                        if occ == 1 and not optional:
                            raise LostAnchor(f"{entry.id}: subst source {frm!r} not found")
                        break
                    edits.append((r[0], r[1] + 1, to, dict(kind="gen", fn=entry.id, norm=tag)))
                    stats.count(tag.lstrip("#"))
                    if not want_all_:
                        break
                    occ += 1
                continue
            # pattern with holes: match the literal runs in order; each hole = content up to the matching close bracket
            lit = [[t.text for t in tokenize(x) if t.kind not in (WS, COMMENT)] for x in fparts[0::2]]
            bsig = body
            found = None
            all_found = []
            want_all = tag.endswith("*")
            tag = tag.rstrip("*")
            a_start = 0
            for a in range(len(bsig)):
                if a < a_start:
                    continue
                pos = a
                runs = []
                ok = True
                for li, run in enumerate(lit):
                    if li > 0:
                        # previous run must end with an opening bracket; hole extends to its match
                        ob = bsig[pos - 1]
                        if toks[ob].text not in ("(", "[", "{"):
                            ok = False
                            break
                        cb = br[ob]
                        # position of closing bracket in bsig
                        while pos < len(bsig) and bsig[pos] < cb:
                            pos += 1
                        if pos >= len(bsig) or bsig[pos] != cb:
                            ok = False
                            break
                    if pos + len(run) > len(bsig) or any(toks[bsig[pos + k]].text != run[k] for k in range(len(run))):
                        ok = False
                        break
                    if run:
                        runs.append((bsig[pos], bsig[pos + len(run) - 1]))
                    else:
                        runs.append(None)
                    pos += len(run)
                if ok:
                    found = runs
                    all_found.append(runs)
                    if not want_all:
                        break
                    a_start = pos
            if not found:
                if optional:
                    continue
                raise LostAnchor(f"{entry.id}: subst pattern {frm!r} not found")
            for fr in all_found:
                for rng, rep in zip(fr, tparts[0::2]):
                    if rng is None:
                        continue
                    edits.append((rng[0], rng[1] + 1, rep, dict(kind="gen", fn=entry.id, norm=tag)))
                stats.count(tag.lstrip("#"))
        # tryexpand (N18): `E?` => `match E { Ok(v) => v, Err(e) => return Err(From::from(e)) }` -- the meaning the Rust
        # reference gives to `?` on a Result; Verus itself does not connect `?` with the From implementation
        for snip, occ in entry.tryexpand:
            r_ = find_snippet(sf, blo, last, snip, occ)
            if r_ is None:
                raise LostAnchor(f"{entry.id}: tryexpand source {snip!r} not found")
            edits.append((r_[0], r_[0], "(match ", dict(kind="gen", fn=entry.id, norm="N18")))
            edits.append((r_[1], r_[1] + 1, " { Ok(verif_ok) => verif_ok, Err(verif_err) => return Err(core::convert::From::from(verif_err)) })", dict(kind="gen", fn=entry.id, norm="N18")))
            stats.count("N18")
        # tryproof (N18 for identical error types): `E?` => `match E { Ok(v) => v, Err(e) => { <ghost text> return Err(e) } }`.
        # With the same error type on both sides `?` converts with std's reflexive `impl<T> From<T> for T`, the identity;
        # the expansion gives the ghost text a place on the error path. The name of the error value is `verif_err`.
        for b in entry.block("tryproof"):
            m = re.match(r'"(.*)"\s*(?:#(\d+))?$', b.arg)
            if not m or not m.group(1).rstrip().endswith("?"):
                raise SystemExit(f"{b.file}:{b.line}: //@tryproof needs a quoted snippet ending in ?")
            r_ = find_snippet(sf, blo, last, m.group(1).replace('\\"', '"'), int(m.group(2) or 1))
            if r_ is None:
                raise LostAnchor(f"{entry.id}: tryproof source {m.group(1)!r} not found")
            edits.append((r_[0], r_[0], "(match ", dict(kind="gen", fn=entry.id, norm="N18")))
            edits.append((r_[1], r_[1] + 1, " { Ok(verif_ok) => verif_ok, Err(verif_err) => {\n" + b.text().rstrip("\n") + "\nreturn Err(verif_err) } })", vc_origin(b)))
            stats.count("N18")
        # callrewrite (N9): `<recv>.m()` => `F(<recv>)`  (method call written as the function rustc resolves it to)
        for meth, fpath, tag in entry.callrewrite:
            for n, i in enumerate(body):
                t = toks[i]
                if not (t.kind == IDENT and t.text == meth and n >= 2 and toks[body[n - 1]].text == "."):
                    continue
                if not (n + 2 < len(body) and toks[body[n + 1]].text == "("):
                    continue
                empty_args = br[body[n + 1]] == body[n + 2]
                pos_of = {tokidx: k for k, tokidx in enumerate(body)}
                k = n - 2  # last token of receiver (index into body)
                first = None
                while k >= 0:
                    tk = toks[body[k]]
                    if tk.kind == PUNCT and tk.text in (")", "]"):
                        o = br[body[k]]
                        ko = pos_of[o]
                        p_ = toks[body[ko - 1]] if ko > 0 else None
                        if p_ is not None and ((p_.kind == IDENT and p_.text not in ("return", "let", "in", "if", "match", "else")) or p_.text in (")", "]", "?")):
                            k = ko - 1
                            continue
                        first = ko
                        break
                    if tk.kind in (IDENT, LIT):
                        p_ = toks[body[k - 1]] if k > 0 else None
                        if p_ is not None and p_.text in (".", "::"):
                            k -= 2
                            continue
                        first = k
                        break
                    if tk.kind == PUNCT and tk.text == "?":
                        k -= 1
                        continue
                    break
                if first is None:
                    raise LostAnchor(f"{entry.id}: cannot find receiver of .{meth}()")
                if fpath.endswith("&mut"):
                    head = fpath[:-4] + "(&mut "
                elif fpath.endswith("&"):
                    head = fpath[:-1] + "(&"
                else:
                    head = fpath + "("
                edits.append((body[first], body[first], head, dict(kind="gen", fn=entry.id, norm=tag)))
                if empty_args:
                    edits.append((body[n - 1], body[n + 2] + 1, ")", dict(kind="gen", fn=entry.id, norm=tag)))
                else:
                    # `.m(` -> `, `   (the closing parenthesis of the call stays)
                    edits.append((body[n - 1], body[n + 1] + 1, ", ", dict(kind="gen", fn=entry.id, norm=tag)))
                stats.count(tag.lstrip("#"))
        # deref (N3)
        for name in entry.deref:
            for n, i in enumerate(body):
                t = toks[i]
                if t.kind == IDENT and t.text == name:
                    prev = toks[body[n - 1]].text if n > 0 else ""
                    nxt = toks[body[n + 1]].text if n + 1 < len(body) else ""
                    if nxt in BINOPS and prev not in ("*", ".", "::") and not (prev == "(" and nxt == ")"):
                        if nxt == "|" and prev == "(":
                            continue
                        edits.append((i, i + 1, f"(*{name})", dict(kind="gen", fn=entry.id, norm="N3")))
                        stats.count("N3")
        # afterstmt k: ghost text behind the k-th top-level statement of the body (a structural anchor: it does not quote the
        # statement). A statement ends at a top-level `;`, or at the closing brace of a top-level if / for / while / loop / match
        # that is not continued (`else`, `;`, `.`, `?`).
        for b in entry.block("afterstmt"):
            k = int(b.arg.split()[0])
            ends = []
            starts = []
            lo_, hi_ = blo, last
            m_in = re.search(r"in loop (\d+)", b.arg)
            if m_in:
                # the statements of the body of the j-th loop
                j_ = int(m_in.group(1))
                if j_ < 1 or j_ > len(loops):
                    raise LostAnchor(f"{entry.id}: loop#{j_} not found ({len(loops)} loops)")
                lo_, hi_ = loops[j_ - 1][1] + 1, br[loops[j_ - 1][1]]
                lo_, hi_ = loops[j_ - 1][1] + 1, br[loops[j_ - 1][1]]
            m_arm = re.search(r'in arm "(.*)"\s*(?:#(\d+))?$', b.arg)
            if m_arm:
                # the statements of the block of the match arm / branch whose header is the snippet
                r_ = find_snippet(sf, blo, last, m_arm.group(1).replace('\\"', '"'), int(m_arm.group(2) or 1))
                if r_ is None:
                    raise LostAnchor(f"{entry.id}: arm {m_arm.group(1)!r} not found")
                j_ = r_[1] + 1
                while toks[j_].kind in (WS, COMMENT):
                    j_ += 1
                if toks[j_].text != "{":
                    raise LostAnchor(f"{entry.id}: arm {m_arm.group(1)!r} is not followed by a block")
                lo_, hi_ = j_ + 1, br[j_]
            i = lo_
            last_ = hi_
            start = None
            while i < last_:
                t = toks[i]
                if t.kind in (WS, COMMENT):
                    i += 1
                    continue
                if start is None:
                    start = i
                if t.kind == PUNCT and t.text in ("(", "[", "{"):
                    j = br[i]
                    if t.text == "{" and toks[start].kind == IDENT and toks[start].text in ("if", "for", "while", "loop", "match"):
                        n_ = j + 1
                        while n_ < last_ and toks[n_].kind in (WS, COMMENT):
                            n_ += 1
                        nxt = toks[n_].text if n_ < last_ else "}"
                        if nxt not in ("else", ";", ".", "?"):
                            ends.append(j)
                            starts.append(start)
                            start = None
                    i = j + 1
                    continue
                if t.kind == PUNCT and t.text == ";":
                    ends.append(i)
                    starts.append(start)
                    start = None
                i += 1
            # `expect "prefix"`: the statement meant begins with these tokens. If statement k does not (statements were inserted,
            # removed or reordered), the one statement of the scope that does is taken; none or several: the anchor is lost.
            # So an edit of the REST of the statement keeps the anchor, and a harmless reshuffle cannot misplace a proof hint.
            m_ex = re.search(r'expect "((?:[^"\\]|\\.)*)"', b.arg)
            if m_ex:
                want = re.sub(r"\s+", "", m_ex.group(1).replace('\\"', '"'))

                def begins(n_):
                    txt = "".join(toks[x].text for x in range(starts[n_], ends[n_] + 1) if toks[x].kind not in (WS, COMMENT))
                    return txt.startswith(want)
                if not (1 <= k <= len(ends) and begins(k - 1)):
                    cand = [n_ for n_ in range(len(ends)) if begins(n_)]
                    if len(cand) != 1:
                        raise LostAnchor(f"{entry.id}: statement #{k} does not begin with {m_ex.group(1)!r} and {len(cand)} statements of the scope do")
                    k = cand[0] + 1
            if k < 1 or k > len(ends):
                raise LostAnchor(f"{entry.id}: top-level statement #{k} not found ({len(ends)} statements)")
            edits.append((ends[k - 1] + 1, ends[k - 1] + 1, "\n" + b.text().rstrip("\n") + "\n", vc_origin(b)))
        # bodystart: ghost declarations at the very start of the body (visible to a wraptail proof)
        for b in entry.block("bodystart"):
            edits.append((blo, blo, "\n" + b.text().rstrip("\n") + "\n", vc_origin(b)))
        # wraptail
        for b in entry.block("wraptail"):
            r = b.arg or "__r"
            edits.append((blo, blo, f" let {r} = {{", dict(kind="gen", fn=entry.id)))
            edits.append((last, last, "};\n" + b.text().rstrip("\n") + f"\n{r}\n", vc_origin(b)))
    if getattr(entry, "_rename_self", False) and mode != "decl":
        covered = [(lo, hi) for lo, hi, _, _ in edits if hi > lo]
        for i in range(blo, last):
            if toks[i].kind == IDENT and toks[i].text == "self" and not any(lo <= i < hi for lo, hi in covered):
                edits.append((i, i + 1, entry.selfparam, dict(kind="gen", fn=entry.id, norm="N21")))
    # N1 / N8: drop attributes, visibility in front of fn
    start = it.first
    dropped = "".join(t.text for t in toks[start:kw])
    if "pub" in dropped:
        stats.count("N8")
    if "#[" in dropped:
        stats.count("N1")
    # `const fn`, `unsafe fn` keep qualifiers other than pub/attrs
    quals = [t.text for t in toks[start:kw] if t.kind == IDENT and t.text in ("const", "unsafe", "async")]
    out.add(prefix, kind="gen", fn=entry.id)
    if quals:
        out.add(" ".join(quals) + " ", kind="gen", fn=entry.id)
    # apply edits
    edits.sort(key=lambda e: (e[0], e[1]))
    pos = kw
    for lo, hi, rep, origin in edits:
        if lo < pos:
            raise LostAnchor(f"{entry.id}: overlapping splice at token {lo}")
        if lo > pos:
            seg = "".join(t.text for t in toks[pos:lo] if not (t.kind == COMMENT and t.text.startswith("///")))
            out.add(strip_module_paths(seg, stats), kind="repo", file=entry.file, line=sf.line_of(toks[pos].start), fn=entry.id)
        out.add(rep, **origin)
        pos = max(pos, hi)
    if pos <= last:
        seg = "".join(t.text for t in toks[pos:last + 1] if not (t.kind == COMMENT and t.text.startswith("///")))
        out.add(strip_module_paths(seg, stats), kind="repo", file=entry.file, line=sf.line_of(toks[pos].start), fn=entry.id)
    out.add("\n", kind="gen")
    if not canary:
        first_tok = blo if entry.fragment else kw
        text = sf.text[toks[first_tok].start:toks[last].end]
        stats.functions.append(dict(id=entry.id, mode=mode, file=entry.file, fn=entry.fn, name=(entry.fragment[1] if entry.fragment else (entry.rename or entry.fn)), container=entry.container,
                                    fragment=bool(entry.fragment),
                                    lines=[sf.line_of(toks[first_tok].start), sf.line_of(toks[last].end)],
                                    sha256=hashlib.sha256(text.encode()).hexdigest(), own=entry.own,
                                    n_loops=n_loops, n_closures=n_closures))


def emit_item(out, spec, stats):
    # "<file> | <kind> <name> [| derive(...)] [| keepattr]"
    parts = [p.strip() for p in spec.split("|")]
    relfile = parts[0]
    kind, name = parts[1].split()
    extra = parts[2:] if len(parts) > 2 else []
    sf = source(relfile)
    cands = sf.find_item(kind, name)
    if len(cands) != 1:
        raise LostAnchor(f"item {kind} {name} in {relfile}: {len(cands)} matches")
    _, it = cands[0]
    toks, br = sf.toks, sf.br
    for e in extra:
        if e.startswith("derive") or e.startswith("#["):
            out.add(("#[" + e + "]\n") if e.startswith("derive") else e + "\n", kind="gen")
    # strip attributes and doc comments and visibility inside the item
    i = it.kw
    pieces = []
    seg_start = None
    n1 = n8 = 0
    buf = []
    j = it.kw
    end = it.last
    while j <= end:
        t = toks[j]
        if t.kind == PUNCT and t.text == "#":
            k = j + 1
            while toks[k].kind in (WS, COMMENT):
                k += 1
            if toks[k].text == "[":
                j = br[k] + 1
                n1 += 1
                continue
        if t.kind == COMMENT and (t.text.startswith("///") or t.text.startswith("//!")):
            j += 1
            continue
        if t.kind == IDENT and t.text == "pub" and kind not in ("trait",):
            k = j + 1
            while toks[k].kind in (WS, COMMENT):
                k += 1
            if toks[k].text == "(":
                j = br[k] + 1
            else:
                j += 1
            n8 += 1
            continue
        buf.append((t.text, sf.line_of(t.start)))
        j += 1
    if n1:
        stats.count("N1", n1)
    if n8:
        stats.count("N8", n8)
    if any(a.startswith("#[derive") or a.startswith("#[error") for a in it.cfg):
        stats.count("N1")
    # emit line by line to keep origin lines right
    cur_line = None
    acc = ""
    for text, line in buf:
        if cur_line is None:
            cur_line = line
        acc += text
    for e in extra:
        m = re.match(r'subst\s+"(.*)"\s*=>\s*"(.*)"\s*(#\S+)?$', e)
        if m:
            pat = r"\s*".join(re.escape(t.text) for t in tokenize(m.group(1)) if t.kind not in (WS, COMMENT))
            acc2, n = re.subn(pat, lambda _m: m.group(2), acc)
            if n == 0:
                raise LostAnchor(f"item {kind} {name}: subst source {m.group(1)!r} not found")
            acc = acc2
            stats.count((m.group(3) or "#N10").lstrip("#"), n)
    acc = strip_module_paths(acc, stats)
    out.add(acc, kind="repo", file=relfile, line=sf.line_of(toks[it.kw].start), approx=True)
    out.add("\n", kind="gen")
    text = sf.text[toks[it.kw].start:toks[it.last].end]
    stats.items.append(dict(item=f"{kind} {name}", file=relfile,
                            lines=[sf.line_of(toks[it.kw].start), sf.line_of(toks[it.last].end)],
                            sha256=hashlib.sha256(text.encode()).hexdigest()))


def expand_template(path, out, lib, stats, canary, seen=None):
    seen = seen or set()
    if path in seen:
        raise SystemExit(f"include cycle at {path}")
    seen = seen | {path}
    rel = os.path.relpath(path, VERIF)
    with open(path) as f:
        lines = f.readlines()
    for ln, raw in enumerate(lines, 1):
        s = raw.strip()
        if s.startswith("//@"):
            d = s[3:].strip()
            word = d.split()[0]
            rest = d[len(word):].strip()
            if word in ("fn", "decl"):
                if rest not in lib:
                    raise SystemExit(f"{rel}:{ln}: unknown contract entry {rest}")
                e = lib[rest]
                emit_fn(out, e, word, stats)
                if canary and word == "fn" and not e.nocanary:
                    emit_fn(out, e, "fn", stats, canary=True)
            elif word == "item":
                emit_item(out, rest, stats)
            elif word == "include":
                expand_template(os.path.join(VERIF, rest), out, lib, stats, canary, seen)
            else:
                raise SystemExit(f"{rel}:{ln}: unknown directive {word}")
        else:
            out.add(raw, kind="tmpl", file=rel, line=ln)


def generate(unit, canary=False):
    lib = load_library()
    out, stats = Out(), Stats()
    tpath = os.path.join(VERIF, "units", unit + ".rs")
    expand_template(tpath, out, lib, stats, canary)
    return out, stats


def write_unit(unit, builddir, canary=False):
    out, stats = generate(unit, canary)
    os.makedirs(builddir, exist_ok=True)
    base = os.path.join(builddir, unit + ("_canary" if canary else ""))
    with open(base + ".rs", "w") as f:
        f.write(out.text())
    with open(base + ".map.json", "w") as f:
        json.dump(dict(map=out.origin_map(), functions=stats.functions, items=stats.items, norm=stats.norm), f)
    return base + ".rs", stats


def record_shapes():
    """contracts/shapes.json: per function under contract the number of loops and closures it has on the tree the proofs were
    written on (a loop or closure beyond that has no invariant / contract: see tools/check.py, `reshaped`)"""
    shapes = {}
    for t in sorted(os.listdir(os.path.join(VERIF, "units"))):
        if t.endswith(".rs"):
            _, st = generate(t[:-3], False)
            for f in st.functions:
                if f.get("mode") == "fn" and f.get("n_loops") is not None:
                    shapes[f["id"]] = [f["n_loops"], f["n_closures"]]
    with open(os.path.join(VERIF, "contracts", "shapes.json"), "w") as g:
        json.dump(shapes, g, indent=0, sort_keys=True)
    print(len(shapes), "functions")


if __name__ == "__main__":
    if sys.argv[1] == "--record-shapes":
        record_shapes()
        sys.exit(0)
    unit = sys.argv[1]
    try:
        p, st = write_unit(unit, os.path.join(VERIF, "build"), canary="--canary" in sys.argv)
    except LostAnchor as e:
        print(f"UNDECIDED unit={unit} reason=lost-anchor {e}")
        sys.exit(2)
    print(p, json.dumps(st.norm))
