// ---- C15: closed programs - every identifier an expression reads is, on every path, a variable in scope ----
// Written from C01's scoping rules. Used by the non-interference lemmas (spec/noninterf.spec.rs, unit static_iter) and tied to
// the parser's record of output reads by spec/closed_bridge.spec.rs (unit parser_scope).

/// index carrier for triggers
spec fn nw(i: int) -> bool { true }
spec fn ni_add(s: spec_fn(Seq<char>) -> bool, name: Seq<char>) -> spec_fn(Seq<char>) -> bool { |x: Seq<char>| s(x) || x == name }

// ---- closed expressions, rows, statements ----

/// every identifier e reads satisfies s
spec fn expr_closed(e: Expr, s: spec_fn(Seq<char>) -> bool) -> bool
    decreases e
{
    match e {
        Expr::Number(_) => true,
        Expr::Variable(name) => s(name@),
        Expr::UnaryOp { op, expr } => expr_closed(*expr, s),
        Expr::BinOp { op, left, right } => expr_closed(*left, s) && expr_closed(*right, s),
        Expr::Func { name, args } => forall|i: int| 0 <= i < args@.len() ==> expr_closed(#[trigger] args@[i], s),
    }
}
spec fn entry_closed(d: DataEntry, s: spec_fn(Seq<char>) -> bool) -> bool {
    match d {
        DataEntry::Expr(e) => expr_closed(e, s),
        DataEntry::Bits { number, expr } => expr_closed(expr, s),
        _ => true,
    }
}
/// one of the first i statements of the block is `let x = ...` (C01: it binds x for the rest of the block)
spec fn ni_let_in(ss: Seq<Stmt>, i: int, x: Seq<char>) -> bool {
    exists|j: int| #[trigger] nw(j) && 0 <= j < i && j < ss.len() && (ss[j] matches Stmt::Let { name, expr } && name@ == x)
}
spec fn ni_ext(s: spec_fn(Seq<char>) -> bool, ss: Seq<Stmt>, i: int) -> spec_fn(Seq<char>) -> bool { |x: Seq<char>| s(x) || ni_let_in(ss, i, x) }

/// statement t, reached with the names s bound, reads only variables. C01: a loop's body sees the counter and, statement by
/// statement, the names its own earlier `let`s bound; nothing bound inside a loop or a `while` body counts behind it.
spec fn stmt_closed(t: Stmt, s: spec_fn(Seq<char>) -> bool) -> bool
    decreases t
{
    match t {
        Stmt::Let { name, expr } => expr_closed(expr, s),
        Stmt::DataRow { data, line } => forall|i: int| 0 <= i < data@.len() ==> entry_closed(#[trigger] data@[i], s),
        Stmt::Loop { variable, max, inner } => expr_closed(max, s)
            && forall|i: int| #[trigger] nw(i) && 0 <= i < inner@.len() ==> stmt_closed(inner@[i], ni_ext(ni_add(s, variable@), inner@, i)),
        Stmt::While { condition, inner } => expr_closed(condition, s)
            && forall|i: int| #[trigger] nw(i) && 0 <= i < inner@.len() ==> stmt_closed(inner@[i], ni_ext(s, inner@, i)),
        Stmt::ResetRandom => true,
    }
}
spec fn block_closed(ss: Seq<Stmt>, s: spec_fn(Seq<char>) -> bool) -> bool {
    forall|i: int| #[trigger] nw(i) && 0 <= i < ss.len() ==> stmt_closed(ss[i], ni_ext(s, ss, i))
}
/// C15: the program reads no outputs
spec fn prog_closed(ss: Seq<Stmt>) -> bool { block_closed(ss, |x: Seq<char>| false) }

proof fn lemma_expr_mono(e: Expr, s: spec_fn(Seq<char>) -> bool, t: spec_fn(Seq<char>) -> bool)
    requires expr_closed(e, s), forall|x: Seq<char>| s(x) ==> #[trigger] t(x)
    ensures expr_closed(e, t)
    decreases e
{
    match e {
        Expr::UnaryOp { op, expr } => { lemma_expr_mono(*expr, s, t); }
        Expr::BinOp { op, left, right } => { lemma_expr_mono(*left, s, t); lemma_expr_mono(*right, s, t); }
        Expr::Func { name, args } => {
            assert forall|i: int| 0 <= i < args@.len() implies expr_closed(#[trigger] args@[i], t) by { lemma_expr_mono(args@[i], s, t); }
        }
        _ => {}
    }
}
proof fn lemma_stmt_mono(u: Stmt, s: spec_fn(Seq<char>) -> bool, t: spec_fn(Seq<char>) -> bool)
    requires stmt_closed(u, s), forall|x: Seq<char>| s(x) ==> #[trigger] t(x)
    ensures stmt_closed(u, t)
    decreases u
{
    match u {
        Stmt::Let { name, expr } => { lemma_expr_mono(expr, s, t); }
        Stmt::DataRow { data, line } => {
            assert forall|i: int| 0 <= i < data@.len() implies entry_closed(#[trigger] data@[i], t) by {
                match data@[i] {
                    DataEntry::Expr(e) => { lemma_expr_mono(e, s, t); }
                    DataEntry::Bits { number, expr } => { lemma_expr_mono(expr, s, t); }
                    _ => {}
                }
            }
        }
        Stmt::Loop { variable, max, inner } => {
            lemma_expr_mono(max, s, t);
            assert forall|i: int| #[trigger] nw(i) && 0 <= i < inner@.len() implies stmt_closed(inner@[i], ni_ext(ni_add(t, variable@), inner@, i)) by {
                lemma_stmt_mono(inner@[i], ni_ext(ni_add(s, variable@), inner@, i), ni_ext(ni_add(t, variable@), inner@, i));
            }
        }
        Stmt::While { condition, inner } => {
            lemma_expr_mono(condition, s, t);
            assert forall|i: int| #[trigger] nw(i) && 0 <= i < inner@.len() implies stmt_closed(inner@[i], ni_ext(t, inner@, i)) by {
                lemma_stmt_mono(inner@[i], ni_ext(s, inner@, i), ni_ext(t, inner@, i));
            }
        }
        Stmt::ResetRandom => {}
    }
}
proof fn lemma_block_mono(ss: Seq<Stmt>, s: spec_fn(Seq<char>) -> bool, t: spec_fn(Seq<char>) -> bool)
    requires block_closed(ss, s), forall|x: Seq<char>| s(x) ==> #[trigger] t(x)
    ensures block_closed(ss, t)
{
    assert forall|i: int| #[trigger] nw(i) && 0 <= i < ss.len() implies stmt_closed(ss[i], ni_ext(t, ss, i)) by {
        lemma_stmt_mono(ss[i], ni_ext(s, ss, i), ni_ext(t, ss, i));
    }
}
/// the rest of a block after its first statement, with the names that statement leaves bound
proof fn lemma_block_rest(ss: Seq<Stmt>, s: spec_fn(Seq<char>) -> bool, t: spec_fn(Seq<char>) -> bool)
    requires
        ss.len() > 0, block_closed(ss, s), forall|x: Seq<char>| s(x) ==> #[trigger] t(x),
        ss[0] matches Stmt::Let { name, expr } ==> t(name@),
    ensures block_closed(ss.skip(1), t)
{
    let r = ss.skip(1);
    assert forall|i: int| #[trigger] nw(i) && 0 <= i < r.len() implies stmt_closed(r[i], ni_ext(t, r, i)) by {
        assert(nw(i + 1) && r[i] == ss[i + 1]);
        assert forall|x: Seq<char>| ni_ext(s, ss, i + 1)(x) implies #[trigger] ni_ext(t, r, i)(x) by {
            if !s(x) {
                let j = choose|j: int| #[trigger] nw(j) && 0 <= j < i + 1 && j < ss.len() && (ss[j] matches Stmt::Let { name, expr } && name@ == x);
                if j > 0 { assert(nw(j - 1) && r[j - 1] == ss[j]); }
            }
        }
        lemma_stmt_mono(ss[i + 1], ni_ext(s, ss, i + 1), ni_ext(t, r, i));
    }
}
/// what the first statement of a closed block may read
proof fn lemma_block_first(ss: Seq<Stmt>, s: spec_fn(Seq<char>) -> bool)
    requires ss.len() > 0, block_closed(ss, s)
    ensures stmt_closed(ss[0], s)
{
    assert(nw(0));
    assert forall|x: Seq<char>| ni_ext(s, ss, 0)(x) implies #[trigger] s(x) by {}
    lemma_stmt_mono(ss[0], ni_ext(s, ss, 0), s);
}


// vacuity guards for the definition: `let a = ..; (a)` is closed, `(a)` alone is not
proof fn lemma_closed_example(name: String, data: Vec<DataEntry>, line: usize)
    requires data@ == seq![DataEntry::Expr(Expr::Variable(name))]
    ensures
        prog_closed(seq![Stmt::Let { name, expr: Expr::Number(1) }, Stmt::DataRow { data, line }]),
        !prog_closed(seq![Stmt::DataRow { data, line }]),
{
    let s = |x: Seq<char>| false;
    let ss = seq![Stmt::Let { name, expr: Expr::Number(1) }, Stmt::DataRow { data, line }];
    assert forall|i: int| #[trigger] nw(i) && 0 <= i < ss.len() implies stmt_closed(ss[i], ni_ext(s, ss, i)) by {
        if i == 1 {
            assert(nw(0) && ss[0] == (Stmt::Let { name, expr: Expr::Number(1) }));
            assert(ni_let_in(ss, 1, name@));
            assert(ni_ext(s, ss, 1)(name@));
            assert forall|j: int| 0 <= j < data@.len() implies entry_closed(#[trigger] data@[j], ni_ext(s, ss, 1)) by {}
        }
    }
    let tt = seq![Stmt::DataRow { data, line }];
    if prog_closed(tt) {
        assert(nw(0));
        assert(stmt_closed(tt[0], ni_ext(s, tt, 0)));
        assert(tt[0] == (Stmt::DataRow { data, line }));
        assert(data@.len() == 1 && data@[0] == DataEntry::Expr(Expr::Variable(name)));
        let q = ni_ext(s, tt, 0);
        let st = tt[0];
        assert(stmt_closed(st, q));
        match st {
            Stmt::DataRow { data: d2, line: l2 } => {
                assert(d2 == data);
                assert(forall|i: int| 0 <= i < d2@.len() ==> entry_closed(#[trigger] d2@[i], q));
                assert(entry_closed(d2@[0], q));
            }
            _ => {}
        }
        assert(expr_closed(Expr::Variable(name), q));
        assert(q(name@));
        assert(false);
    }
}
