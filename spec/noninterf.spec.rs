// ---- C15: a program that reads no outputs runs the same whatever the driver answers (non-interference) ----
//
// Lemmas over the reference machine of spec/stmt.spec.rs (which `StmtIterator::next_with_context`, `get_row` and
// `DataRowIterator::next` are proved to refine). Two configurations that differ ONLY in the stored driver answer
// (`ctx.outputs`) take the same steps with the same labels, provided the program is *closed*: every identifier an
// expression reads is, on every path that reaches it, a variable in scope (bound by an earlier `let` of the same block or
// of an enclosing block on the way in, or the counter of an enclosing loop). Closedness is a syntactic condition written
// from C01's scoping rules; names first bound inside a `while` body do NOT count as bound behind the loop (the body may
// run zero times) - that is exactly the case in which the property is false (finding F-while-scope, DESIGN 11.5).

/// environments that differ at most in the driver's last answer
spec fn ni_sim(a: EvalContext, b: EvalContext) -> bool {
    a.vars == b.vars && a.alt_vars == b.alt_vars && a.seed == b.seed && a.rng == b.rng
}
spec fn ni_cfg(c: Config, d: Config) -> bool { c.k == d.k && ni_sim(c.ctx, d.ctx) }
/// `c`'s scopes with `d`'s driver answer
spec fn ni_with_outputs(c: EvalContext, d: EvalContext) -> EvalContext {
    EvalContext { vars: c.vars, alt_vars: c.alt_vars, outputs: d.outputs, seed: c.seed, rng: c.rng }
}

/// one of the first n bindings (oldest first) binds x
spec fn ni_has(v: Seq<(String, i64)>, n: int, x: Seq<char>) -> bool {
    exists|i: int| #[trigger] nw(i) && 0 <= i < n && i < v.len() && v[i].0@ == x
}
spec fn ni_scope(v: Seq<(String, i64)>, n: int) -> spec_fn(Seq<char>) -> bool { |x: Seq<char>| ni_has(v, n, x) }
/// the first m bindings carry the same names
spec fn ni_same_names(v: Seq<(String, i64)>, w: Seq<(String, i64)>, m: int) -> bool {
    m <= v.len() && m <= w.len() && forall|i: int| 0 <= i < m ==> (#[trigger] v[i]).0@ == w[i].0@
}

proof fn lemma_ni_var_of(v: Seq<(String, i64)>, x: Seq<char>, p: spec_fn(String) -> bool)
    requires forall|k: String| #[trigger] p(k) == (k@ == x)
    ensures (lookup_by(v, p) is Some) == ni_has(v, v.len() as int, x)
    decreases v.len()
{
    if v.len() > 0 {
        let v0 = v.drop_last();
        lemma_ni_var_of(v0, x, p);
        if p(v.last().0) {
            assert(nw(v.len() - 1) && v[v.len() - 1].0@ == x);
        } else if ni_has(v0, v0.len() as int, x) {
            let i = choose|i: int| #[trigger] nw(i) && 0 <= i < v0.len() && v0[i].0@ == x;
            assert(nw(i) && v[i] == v0[i]);
        } else if ni_has(v, v.len() as int, x) {
            let i = choose|i: int| #[trigger] nw(i) && 0 <= i < v.len() && v[i].0@ == x;
            assert(nw(i) && i < v0.len() && v0[i] == v[i]);
        }
    }
}

// ---- evaluation does not look at the driver's answer when every identifier is a variable ----

proof fn lemma_eval_ni(e: Expr, a: &EvalContext, b: &EvalContext, r: Result<i64, ExprError>)
    requires ni_sim(*a, *b), expr_closed(e, ni_scope(a.vars.values@, a.vars.values@.len() as int)), eval_rel(e, a, r)
    ensures eval_rel(e, b, r)
    decreases e
{
    match e {
        Expr::Number(n) => {}
        Expr::Variable(name) => {
            lemma_ni_var_of(a.vars.values@, name@, |k: String| k@ == name@);
            assert(a.var_of(name@) is Some);
            assert(a.var_of(name@) == b.var_of(name@));
            assert(a.read(name@) == b.read(name@));
            assert(eval_rel(e, b, r));
        }
        Expr::UnaryOp { op, expr } => {
            let r1 = choose|r1: Result<i64, ExprError>| #[trigger] wit(r1) && eval_rel(*expr, a, r1) && match r1 {
                Ok(v) => r == Ok::<i64, ExprError>(unop_spec(op, v)),
                Err(_) => r is Err,
            };
            lemma_eval_ni(*expr, a, b, r1);
            assert(wit(r1));
            assert(eval_rel(e, b, r));
        }
        Expr::BinOp { op, left, right } => {
            let rl = choose|rl: Result<i64, ExprError>| #[trigger] wit(rl) && eval_rel(*left, a, rl) && match rl {
                Err(_) => r is Err,
                Ok(x) => exists|rr: Result<i64, ExprError>| #[trigger] wit(rr) && eval_rel(*right, a, rr) && match rr {
                    Err(_) => r is Err,
                    Ok(y) => match binop_spec(op, x, y) {
                        Some(v) => r == Ok::<i64, ExprError>(v),
                        None => r is Err,
                    },
                },
            };
            lemma_eval_ni(*left, a, b, rl);
            assert(wit(rl));
            if let Ok(x) = rl {
                let rr = choose|rr: Result<i64, ExprError>| #[trigger] wit(rr) && eval_rel(*right, a, rr) && match rr {
                    Err(_) => r is Err,
                    Ok(y) => match binop_spec(op, x, y) {
                        Some(v) => r == Ok::<i64, ExprError>(v),
                        None => r is Err,
                    },
                };
                lemma_eval_ni(*right, a, b, rr);
                assert(wit(rr));
            }
            assert(eval_rel(e, b, r));
        }
        Expr::Func { name, args } => {
            if name@ == "ite"@ && args@.len() == 3 {
                let rc = choose|rc: Result<i64, ExprError>| #[trigger] wit(rc) && eval_rel(args@[0], a, rc) && match rc {
                    Err(_) => r is Err,
                    Ok(c) => if c != 0 { eval_rel(args@[1], a, r) } else { eval_rel(args@[2], a, r) },
                };
                lemma_eval_ni(args@[0], a, b, rc);
                assert(wit(rc));
                if let Ok(c) = rc {
                    if c != 0 { lemma_eval_ni(args@[1], a, b, r); } else { lemma_eval_ni(args@[2], a, b, r); }
                }
            } else if name@ == "random"@ && args@.len() == 1 {
                let rm = choose|rm: Result<i64, ExprError>| #[trigger] wit(rm) && eval_rel(args@[0], a, rm) && match rm {
                    Err(_) => r is Err,
                    Ok(n) => n >= 2 ==> (r is Ok && 0 <= r->Ok_0 < n),
                };
                lemma_eval_ni(args@[0], a, b, rm);
                assert(wit(rm));
            }
            assert(eval_rel(e, b, r));
        }
    }
}
proof fn lemma_entry_ni(d: DataEntry, a: &EvalContext, b: &EvalContext, out: Seq<DataEntry>)
    requires ni_sim(*a, *b), entry_closed(d, ni_scope(a.vars.values@, a.vars.values@.len() as int)), entry_rel(d, a, out)
    ensures entry_rel(d, b, out)
{
    match d {
        DataEntry::Expr(e) => {
            let rr = choose|rr: Result<i64, ExprError>| #[trigger] wit(rr) && rr is Ok && eval_rel(e, a, rr) && out =~= seq![DataEntry::Number(rr->Ok_0)];
            lemma_eval_ni(e, a, b, rr);
            assert(wit(rr));
        }
        DataEntry::Bits { number, expr } => {
            let rr = choose|rr: Result<i64, ExprError>| #[trigger] wit(rr) && rr is Ok && eval_rel(expr, a, rr) && out.len() == number
                && (forall|i: int| 0 <= i < number ==> #[trigger] out[i] == DataEntry::Number((rr->Ok_0 >> ((number - 1 - i) as i64)) & 1));
            lemma_eval_ni(expr, a, b, rr);
            assert(wit(rr));
        }
        _ => {}
    }
}
proof fn lemma_entries_ni(data: Seq<DataEntry>, a: &EvalContext, b: &EvalContext, out: Seq<DataEntry>)
    requires
        ni_sim(*a, *b), entries_rel(data, a, out),
        forall|i: int| 0 <= i < data.len() ==> entry_closed(#[trigger] data[i], ni_scope(a.vars.values@, a.vars.values@.len() as int)),
    ensures entries_rel(data, b, out)
    decreases data.len()
{
    if data.len() > 0 {
        let (o1, o2) = choose|o1: Seq<DataEntry>, o2: Seq<DataEntry>| #[trigger] wits(o1, o2) && entries_rel(data.drop_last(), a, o1)
            && entry_rel(data.last(), a, o2) && out =~= o1 + o2;
        assert forall|i: int| 0 <= i < data.drop_last().len() implies entry_closed(#[trigger] data.drop_last()[i], ni_scope(a.vars.values@, a.vars.values@.len() as int)) by {
            assert(data.drop_last()[i] == data[i]);
        }
        lemma_entries_ni(data.drop_last(), a, b, o1);
        lemma_entry_ni(data.last(), a, b, o2);
        assert(wits(o1, o2));
    }
}
proof fn lemma_can_err_expr_ni(e: Expr, a: &EvalContext, b: &EvalContext)
    requires ni_sim(*a, *b), expr_closed(e, ni_scope(a.vars.values@, a.vars.values@.len() as int)), eval_can_err(e, a)
    ensures eval_can_err(e, b)
{
    let rr = choose|rr: Result<i64, ExprError>| #[trigger] wit(rr) && rr is Err && eval_rel(e, a, rr);
    lemma_eval_ni(e, a, b, rr);
    assert(wit(rr));
}

// ---- the invariant: every frame of the continuation is closed with respect to the names that will be bound when it runs ----

/// frames, innermost first; `n` bindings are visible to the frames of the current loop level and `d` loop scopes are open
/// around them. A `Loop` frame closes a level: when it ends, its scope goes, leaving the first fs[d-1] bindings and d-1 scopes.
spec fn k_closed(k: Seq<Frame>, v: Seq<(String, i64)>, fs: Seq<usize>, n: int, d: int) -> bool
    decreases k.len()
{
    if k.len() == 0 { true } else {
        let s = ni_scope(v, n);
        match k[0] {
            Frame::Block(ss) => block_closed(ss, s) && k_closed(k.skip(1), v, fs, n, d),
            Frame::While { cond, body } => expr_closed(cond, s) && block_closed(body, s) && k_closed(k.skip(1), v, fs, n, d),
            Frame::LoopEntry { var, bound, body } => block_closed(body, ni_add(s, var)) && k_closed(k.skip(1), v, fs, n, d),
            Frame::Loop { var, bound, body, counter } => 1 <= d <= fs.len() && fs[d - 1] <= n && n <= v.len() && ni_has(v, n, var)
                && block_closed(body, ni_add(ni_scope(v, fs[d - 1] as int), var))
                && k_closed(k.skip(1), v, fs, fs[d - 1] as int, d - 1),
        }
    }
}
spec fn ni_inv(c: Config) -> bool {
    c.ctx.wf() && k_closed(c.k, c.ctx.vars.values@, c.ctx.vars.frame_stack@, c.ctx.vars.values@.len() as int, c.ctx.vars.frame_stack@.len() as int)
}

proof fn lemma_scope_same(v: Seq<(String, i64)>, w: Seq<(String, i64)>, m: int, j: int, x: Seq<char>)
    requires ni_same_names(v, w, m), j <= m, ni_has(v, j, x)
    ensures ni_has(w, j, x)
{
    let i = choose|i: int| #[trigger] nw(i) && 0 <= i < j && i < v.len() && v[i].0@ == x;
    assert(nw(i) && w[i].0@ == v[i].0@);
}

/// the invariant of the outer levels only looks at the bindings and scopes that stay
proof fn lemma_k_ext(k: Seq<Frame>, v: Seq<(String, i64)>, fs: Seq<usize>, w: Seq<(String, i64)>, gs: Seq<usize>, n: int, d: int)
    requires
        k_closed(k, v, fs, n, d), ni_same_names(v, w, n), 0 <= d <= fs.len(), d <= gs.len(),
        forall|j: int| 0 <= j < d ==> fs[j] == gs[j],
    ensures k_closed(k, w, gs, n, d)
    decreases k.len()
{
    if k.len() > 0 {
        let s = ni_scope(v, n);
        let t = ni_scope(w, n);
        assert forall|x: Seq<char>| s(x) implies #[trigger] t(x) by { lemma_scope_same(v, w, n, n, x); }
        match k[0] {
            Frame::Block(ss) => { lemma_block_mono(ss, s, t); lemma_k_ext(k.skip(1), v, fs, w, gs, n, d); }
            Frame::While { cond, body } => { lemma_expr_mono(cond, s, t); lemma_block_mono(body, s, t); lemma_k_ext(k.skip(1), v, fs, w, gs, n, d); }
            Frame::LoopEntry { var, bound, body } => {
                assert forall|x: Seq<char>| ni_add(s, var)(x) implies #[trigger] ni_add(t, var)(x) by {}
                lemma_block_mono(body, ni_add(s, var), ni_add(t, var));
                lemma_k_ext(k.skip(1), v, fs, w, gs, n, d);
            }
            Frame::Loop { var, bound, body, counter } => {
                let m = fs[d - 1] as int;
                lemma_scope_same(v, w, n, n, var);
                let s0 = ni_scope(v, m);
                let t0 = ni_scope(w, m);
                assert forall|x: Seq<char>| ni_add(s0, var)(x) implies #[trigger] ni_add(t0, var)(x) by {
                    if s0(x) { lemma_scope_same(v, w, n, m, x); }
                }
                lemma_block_mono(body, ni_add(s0, var), ni_add(t0, var));
                assert(ni_same_names(v, w, m));
                lemma_k_ext(k.skip(1), v, fs, w, gs, m, d - 1);
            }
        }
    }
}

/// more bindings in the current level (a `let`, a counter update): everything stays closed
proof fn lemma_k_grow(k: Seq<Frame>, v: Seq<(String, i64)>, fs: Seq<usize>, n: int, d: int, w: Seq<(String, i64)>, n2: int)
    requires
        k_closed(k, v, fs, n, d), n <= v.len(), n <= n2 <= w.len(), ni_same_names(v, w, n), 0 <= d <= fs.len(),
    ensures k_closed(k, w, fs, n2, d)
    decreases k.len()
{
    if k.len() > 0 {
        let s = ni_scope(v, n);
        let t = ni_scope(w, n2);
        assert forall|x: Seq<char>| s(x) implies #[trigger] t(x) by {
            lemma_scope_same(v, w, n, n, x);
            let i = choose|i: int| #[trigger] nw(i) && 0 <= i < n && i < w.len() && w[i].0@ == x;
            assert(nw(i));
        }
        match k[0] {
            Frame::Block(ss) => { lemma_block_mono(ss, s, t); lemma_k_grow(k.skip(1), v, fs, n, d, w, n2); }
            Frame::While { cond, body } => { lemma_expr_mono(cond, s, t); lemma_block_mono(body, s, t); lemma_k_grow(k.skip(1), v, fs, n, d, w, n2); }
            Frame::LoopEntry { var, bound, body } => {
                assert forall|x: Seq<char>| ni_add(s, var)(x) implies #[trigger] ni_add(t, var)(x) by {}
                lemma_block_mono(body, ni_add(s, var), ni_add(t, var));
                lemma_k_grow(k.skip(1), v, fs, n, d, w, n2);
            }
            Frame::Loop { var, bound, body, counter } => {
                let m = fs[d - 1] as int;
                assert(t(var));
                let s0 = ni_scope(v, m);
                let t0 = ni_scope(w, m);
                assert forall|x: Seq<char>| ni_add(s0, var)(x) implies #[trigger] ni_add(t0, var)(x) by {
                    if s0(x) { lemma_scope_same(v, w, n, m, x); }
                }
                lemma_block_mono(body, ni_add(s0, var), ni_add(t0, var));
                assert(ni_same_names(v, w, m));
                lemma_k_ext(k.skip(1), v, fs, w, fs, m, d - 1);
            }
        }
    }
}

proof fn lemma_find_name_result(s: Seq<(String, i64)>, from: int, name: Seq<char>)
    requires 0 <= from
    ensures match find_name_from(s, from, name) { Some(i) => from <= i < s.len() && s[i].0@ == name, None => true }
    decreases s.len() - from
{
    if from < s.len() && s[from].0@ != name { lemma_find_name_result(s, from + 1, name); }
}
/// `let` / counter update: the bindings that were there keep their names and places, and `name` is bound afterwards
proof fn lemma_bind_names(a: EvalContext, name: Seq<char>, val: i64, b: EvalContext)
    requires a.wf(), is_bind(a, name, val, b)
    ensures
        a.vars.values@.len() <= b.vars.values@.len(), ni_same_names(a.vars.values@, b.vars.values@, a.vars.values@.len() as int),
        ni_has(b.vars.values@, b.vars.values@.len() as int, name), b.vars.frame_stack@ == a.vars.frame_stack@,
{
    let v = a.vars.values@;
    let w = b.vars.values@;
    lemma_find_name_result(v, a.vars.frame_start(), name);
    match find_name_from(v, a.vars.frame_start(), name) {
        Some(i) => { assert(nw(i) && w[i].0@ == name); }
        None => {
            assert(nw(w.len() - 1));
            assert forall|i: int| 0 <= i < v.len() implies (#[trigger] v[i]).0@ == w[i].0@ by { assert(w.drop_last()[i] == w[i]); }
        }
    }
}

// ---- one step ----

spec fn ni_d2(c2: Config, d1: Config) -> Config { Config { k: c2.k, ctx: ni_with_outputs(c2.ctx, d1.ctx) } }
/// what every case of the step lemma establishes
spec fn ni_step_post(c1: Config, c2: Config, l: Label, d1: Config) -> bool {
    let d2 = ni_d2(c2, d1);
    step(d1, d2, l) && ni_cfg(c2, d2) && ni_inv(c2)
}
spec fn ni_k_inv(k: Seq<Frame>, ctx: EvalContext) -> bool {
    k_closed(k, ctx.vars.values@, ctx.vars.frame_stack@, ctx.vars.values@.len() as int, ctx.vars.frame_stack@.len() as int)
}

/// end of a block: next iteration / end of the loop / back to the `while` test
proof fn lemma_step_ni_end(c1: Config, c2: Config, l: Label, d1: Config)
    requires step(c1, c2, l), ni_cfg(c1, d1), ni_inv(c1), c1.k[0] matches Frame::Block(ss) && ss.len() == 0
    ensures ni_step_post(c1, c2, l, d1)
{
    reveal_with_fuel(k_closed, 3);
    let d2 = ni_d2(c2, d1);
    let v = c1.ctx.vars.values@;
    let fs = c1.ctx.vars.frame_stack@;
    let n = v.len() as int;
    let d = fs.len() as int;
    let k = c1.k;
    assert(d1.ctx == ni_with_outputs(c1.ctx, d1.ctx));
    assert(k.skip(1)[0] == k[1]);
    assert(k.skip(1).skip(1) =~= k.skip(2));
    match k[1] {
        Frame::Loop { var, bound, body, counter } => {
            let m = fs[d - 1] as int;
            let s0 = ni_scope(v, m);
            assert(block_closed(body, ni_add(s0, var)));
            assert(k_closed(k.skip(2), v, fs, m, d - 1));
            if counter + 1 < bound {
                lemma_bind_names(c1.ctx, var, (counter + 1) as i64, c2.ctx);
                let w = c2.ctx.vars.values@;
                let n2 = w.len() as int;
                let t = ni_scope(w, n2);
                assert(ni_same_names(v, w, m));
                assert forall|x: Seq<char>| ni_add(s0, var)(x) implies #[trigger] t(x) by {
                    if s0(x) {
                        lemma_scope_same(v, w, m, m, x);
                        let i = choose|i: int| #[trigger] nw(i) && 0 <= i < m && i < w.len() && w[i].0@ == x;
                        assert(nw(i));
                    }
                }
                lemma_block_mono(body, ni_add(s0, var), t);
                let t0 = ni_scope(w, m);
                assert forall|x: Seq<char>| ni_add(s0, var)(x) implies #[trigger] ni_add(t0, var)(x) by {
                    if s0(x) { lemma_scope_same(v, w, m, m, x); }
                }
                lemma_block_mono(body, ni_add(s0, var), ni_add(t0, var));
                lemma_k_ext(k.skip(2), v, fs, w, fs, m, d - 1);
                let k2 = c2.k;
                assert(k2[0] == Frame::Block(body));
                assert(k2.skip(1)[0] == (Frame::Loop { var, bound, body, counter: (counter + 1) as i64 }));
                assert(k2.skip(1).skip(1) =~= k.skip(2));
                assert(ni_k_inv(c2.k, c2.ctx));
            } else {
                let w = c2.ctx.vars.values@;
                assert(w =~= v.take(m));
                assert(ni_same_names(v, w, m));
                lemma_k_ext(k.skip(2), v, fs, w, c2.ctx.vars.frame_stack@, m, d - 1);
                assert(ni_k_inv(c2.k, c2.ctx));
            }
        }
        Frame::While { cond, body } => {
            assert(ni_k_inv(c2.k, c2.ctx));
        }
        _ => {}
    }
}

/// the first statement of a block
proof fn lemma_step_ni_stmt(c1: Config, c2: Config, l: Label, d1: Config)
    requires step(c1, c2, l), ni_cfg(c1, d1), ni_inv(c1), c1.k[0] matches Frame::Block(ss) && ss.len() > 0
    ensures ni_step_post(c1, c2, l, d1)
{
    reveal_with_fuel(k_closed, 3);
    let d2 = ni_d2(c2, d1);
    let v = c1.ctx.vars.values@;
    let fs = c1.ctx.vars.frame_stack@;
    let n = v.len() as int;
    let d = fs.len() as int;
    let s = ni_scope(v, n);
    let k = c1.k;
    let ss = k[0]->Block_0;
    assert(d1.ctx == ni_with_outputs(c1.ctx, d1.ctx));
    let rest = k.update(0, Frame::Block(ss.skip(1)));
    assert(rest[0] == Frame::Block(ss.skip(1)));
    assert(rest.skip(1) =~= k.skip(1));
    assert(block_closed(ss, s));
    assert(k_closed(k.skip(1), v, fs, n, d));
    lemma_block_first(ss, s);
    match ss[0] {
        Stmt::Let { name, expr } => {
            let rr = choose|rr: Result<i64, ExprError>| #[trigger] wit(rr) && rr is Ok && eval_rel(expr, &c1.ctx, rr) && is_bind(c1.ctx, name@, rr->Ok_0, c2.ctx);
            lemma_eval_ni(expr, &c1.ctx, &d1.ctx, rr);
            assert(wit(rr));
            lemma_bind_names(c1.ctx, name@, rr->Ok_0, c2.ctx);
            let w = c2.ctx.vars.values@;
            let n2 = w.len() as int;
            let t = ni_scope(w, n2);
            assert forall|x: Seq<char>| s(x) implies #[trigger] t(x) by {
                lemma_scope_same(v, w, n, n, x);
                let i = choose|i: int| #[trigger] nw(i) && 0 <= i < n && i < w.len() && w[i].0@ == x;
                assert(nw(i));
            }
            lemma_block_rest(ss, s, t);
            lemma_k_grow(k.skip(1), v, fs, n, d, w, n2);
            assert(c2.k =~= rest);
            assert(ni_k_inv(c2.k, c2.ctx));
            assert(is_bind(d1.ctx, name@, rr->Ok_0, d2.ctx));
        }
        Stmt::DataRow { data, line } => {
            let r = l->Emit_0;
            lemma_entries_ni(data@, &c1.ctx, &d1.ctx, r.entries);
            lemma_block_rest(ss, s, s);
            assert(c2.k =~= rest);
            assert(ni_k_inv(c2.k, c2.ctx));
        }
        Stmt::Loop { variable, max, inner } => {
            let rr = choose|rr: Result<i64, ExprError>| #[trigger] wit(rr) && rr is Ok && eval_rel(max, &c1.ctx, rr)
                && c2.k =~= seq![Frame::LoopEntry { var: variable@, bound: rr->Ok_0, body: inner@ }] + rest;
            lemma_eval_ni(max, &c1.ctx, &d1.ctx, rr);
            assert(wit(rr));
            lemma_block_rest(ss, s, s);
            assert(block_closed(inner@, ni_add(s, variable@)));
            assert(c2.k[0] == (Frame::LoopEntry { var: variable@, bound: rr->Ok_0, body: inner@ }));
            assert(c2.k.skip(1) =~= rest);
            assert(k_closed(rest, v, fs, n, d));
            assert(ni_k_inv(c2.k, c2.ctx));
        }
        Stmt::While { condition, inner } => {
            lemma_block_rest(ss, s, s);
            assert(block_closed(inner@, s));
            assert(c2.k[0] == (Frame::While { cond: condition, body: inner@ }));
            assert(c2.k.skip(1) =~= rest);
            assert(k_closed(rest, v, fs, n, d));
            assert(ni_k_inv(c2.k, c2.ctx));
        }
        Stmt::ResetRandom => {
            lemma_block_rest(ss, s, s);
            assert(c2.k =~= rest);
            assert(ni_k_inv(c2.k, c2.ctx));
        }
    }
}

/// entering a loop (or skipping it when the bound is not positive)
proof fn lemma_step_ni_entry(c1: Config, c2: Config, l: Label, d1: Config)
    requires step(c1, c2, l), ni_cfg(c1, d1), ni_inv(c1), c1.k[0] is LoopEntry
    ensures ni_step_post(c1, c2, l, d1)
{
    reveal_with_fuel(k_closed, 3);
    let d2 = ni_d2(c2, d1);
    let v = c1.ctx.vars.values@;
    let fs = c1.ctx.vars.frame_stack@;
    let n = v.len() as int;
    let d = fs.len() as int;
    let s = ni_scope(v, n);
    let k = c1.k;
    assert(d1.ctx == ni_with_outputs(c1.ctx, d1.ctx));
    match k[0] {
        Frame::LoopEntry { var, bound, body } => {
            assert(block_closed(body, ni_add(s, var)));
            assert(k_closed(k.skip(1), v, fs, n, d));
            if bound > 0 {
                let cm = choose|cm: EvalContext| #[trigger] cm.wf() && is_push(c1.ctx, cm) && is_bind(cm, var, 0, c2.ctx);
                let dm = ni_with_outputs(cm, d1.ctx);
                assert(dm.wf() && is_push(d1.ctx, dm) && is_bind(dm, var, 0, d2.ctx));
                lemma_bind_names(cm, var, 0, c2.ctx);
                let w = c2.ctx.vars.values@;
                let gs = c2.ctx.vars.frame_stack@;
                let n2 = w.len() as int;
                let t = ni_scope(w, n2);
                assert(gs =~= fs.push(n as usize));
                assert(ni_same_names(v, w, n));
                assert forall|x: Seq<char>| ni_add(s, var)(x) implies #[trigger] t(x) by {
                    if s(x) {
                        lemma_scope_same(v, w, n, n, x);
                        let i = choose|i: int| #[trigger] nw(i) && 0 <= i < n && i < w.len() && w[i].0@ == x;
                        assert(nw(i));
                    }
                }
                lemma_block_mono(body, ni_add(s, var), t);
                let t0 = ni_scope(w, n);
                assert forall|x: Seq<char>| ni_add(s, var)(x) implies #[trigger] ni_add(t0, var)(x) by {
                    if s(x) { lemma_scope_same(v, w, n, n, x); }
                }
                lemma_block_mono(body, ni_add(s, var), ni_add(t0, var));
                lemma_k_ext(k.skip(1), v, fs, w, gs, n, d);
                let k2 = c2.k;
                assert(k2[0] == Frame::Block(body));
                assert(k2.skip(1)[0] == (Frame::Loop { var, bound, body, counter: 0 }));
                assert(k2.skip(1).skip(1) =~= k.skip(1));
                assert(c1.ctx.vars.values.len() as int == n);
                assert(gs[gs.len() - 1] == n);
                assert(ni_k_inv(c2.k, c2.ctx));
            } else {
                assert(ni_k_inv(c2.k, c2.ctx));
            }
        }
        _ => {}
    }
}

/// testing a `while` condition
proof fn lemma_step_ni_while(c1: Config, c2: Config, l: Label, d1: Config)
    requires step(c1, c2, l), ni_cfg(c1, d1), ni_inv(c1), c1.k[0] is While
    ensures ni_step_post(c1, c2, l, d1)
{
    reveal_with_fuel(k_closed, 3);
    let d2 = ni_d2(c2, d1);
    let v = c1.ctx.vars.values@;
    let fs = c1.ctx.vars.frame_stack@;
    let n = v.len() as int;
    let d = fs.len() as int;
    let s = ni_scope(v, n);
    let k = c1.k;
    assert(d1.ctx == ni_with_outputs(c1.ctx, d1.ctx));
    match k[0] {
        Frame::While { cond, body } => {
            let rr = choose|rr: Result<i64, ExprError>| #[trigger] wit(rr) && rr is Ok && eval_rel(cond, &c1.ctx, rr)
                && (if rr->Ok_0 != 0 { c2.k =~= seq![Frame::Block(body)] + c1.k } else { c2.k =~= c1.k.skip(1) });
            lemma_eval_ni(cond, &c1.ctx, &d1.ctx, rr);
            assert(wit(rr));
            assert(block_closed(body, s));
            if rr->Ok_0 != 0 {
                assert(c2.k[0] == Frame::Block(body));
                assert(c2.k.skip(1) =~= k);
            }
            assert(ni_k_inv(c2.k, c2.ctx));
        }
        _ => {}
    }
}

/// C15: a step of a closed configuration does not depend on the driver's answer: the configuration with another
/// answer takes the same step (same label: the same row, with the same entries and line), and both stay closed
proof fn lemma_step_ni(c1: Config, c2: Config, l: Label, d1: Config) -> (d2: Config)
    requires step(c1, c2, l), ni_cfg(c1, d1), ni_inv(c1)
    ensures step(d1, d2, l), ni_cfg(c2, d2), ni_inv(c2), d2.ctx.outputs == d1.ctx.outputs // [C15.ni.step]
{
    match c1.k[0] {
        Frame::Block(ss) => { if ss.len() == 0 { lemma_step_ni_end(c1, c2, l, d1); } else { lemma_step_ni_stmt(c1, c2, l, d1); } }
        Frame::LoopEntry { var, bound, body } => { lemma_step_ni_entry(c1, c2, l, d1); }
        Frame::While { cond, body } => { lemma_step_ni_while(c1, c2, l, d1); }
        Frame::Loop { var, bound, body, counter } => {}
    }
    ni_d2(c2, d1)
}

/// ... and so do any number of silent steps
proof fn lemma_reach_ni(c1: Config, c2: Config, n: nat, d1: Config) -> (d2: Config)
    requires reach(c1, c2, n), ni_cfg(c1, d1), ni_inv(c1)
    ensures reach(d1, d2, n), ni_cfg(c2, d2), ni_inv(c2), d2.ctx.outputs == d1.ctx.outputs
    decreases n
{
    if n == 0 { d1 } else {
        let cm = choose|cm: Config| #[trigger] witc(cm) && step(c1, cm, Label::Silent) && reach(cm, c2, (n - 1) as nat);
        let dm = lemma_step_ni(c1, cm, Label::Silent, d1);
        let d2 = lemma_reach_ni(cm, c2, (n - 1) as nat, dm);
        assert(witc(dm));
        d2
    }
}

/// C15, rows: whatever row the program can yield next with one driver answer stored, it can yield with any other, and the
/// two runs continue from configurations that again differ only in the stored answer
proof fn theorem_emits_ni(c1: Config, c2: Config, row: RowS, d1: Config) -> (d2: Config)
    requires emits(c1, c2, row), ni_cfg(c1, d1), ni_inv(c1)
    ensures emits(d1, d2, row), ni_cfg(c2, d2), ni_inv(c2), d2.ctx.outputs == d1.ctx.outputs // [C15.ni.rows]
{
    let (n, cm) = choose|n: nat, cm: Config| #[trigger] witn(n, cm) && reach(c1, cm, n) && step(cm, c2, Label::Emit(row));
    let dm = lemma_reach_ni(c1, cm, n, d1);
    let d2 = lemma_step_ni(cm, c2, Label::Emit(row), dm);
    assert(witn(n, dm));
    d2
}
/// C15, end of the test: if the program can run to its end without a further row with one answer, it can with any other
proof fn theorem_silent_ni(c1: Config, c2: Config, d1: Config) -> (d2: Config)
    requires silent_to(c1, c2), ni_cfg(c1, d1), ni_inv(c1)
    ensures silent_to(d1, d2), ni_cfg(c2, d2), ni_inv(c2), d2.ctx.outputs == d1.ctx.outputs // [C15.ni.end]
{
    let n = choose|n: nat| #[trigger] witnn(n) && reach(c1, c2, n);
    let d2 = lemma_reach_ni(c1, c2, n, d1);
    assert(witnn(n));
    d2
}
/// C15, error items: an evaluation can fail in the one run exactly if it can in the other
proof fn theorem_err_ni(c1: Config, d1: Config)
    requires err_reachable(c1), ni_cfg(c1, d1), ni_inv(c1)
    ensures err_reachable(d1) // [C15.ni.errors]
{
    let (n, cm) = choose|n: nat, cm: Config| #[trigger] witn(n, cm) && reach(c1, cm, n) && can_err(cm);
    let dm = lemma_reach_ni(c1, cm, n, d1);
    let v = cm.ctx.vars.values@;
    let s = ni_scope(v, v.len() as int);
    match cm.k[0] {
        Frame::Block(ss) => {
            lemma_block_first(ss, s);
            match ss[0] {
                Stmt::Let { name, expr } => { lemma_can_err_expr_ni(expr, &cm.ctx, &dm.ctx); }
                Stmt::DataRow { data, line } => {
                    let i = choose|i: int| 0 <= i < data@.len() && entry_can_err(#[trigger] data@[i], &cm.ctx);
                    match data@[i] {
                        DataEntry::Expr(e) => { lemma_can_err_expr_ni(e, &cm.ctx, &dm.ctx); }
                        DataEntry::Bits { number, expr } => { lemma_can_err_expr_ni(expr, &cm.ctx, &dm.ctx); }
                        _ => {}
                    }
                    assert(entry_can_err(data@[i], &dm.ctx));
                }
                Stmt::Loop { variable, max, inner } => { lemma_can_err_expr_ni(max, &cm.ctx, &dm.ctx); }
                _ => {}
            }
        }
        Frame::While { cond, body } => { lemma_can_err_expr_ni(cond, &cm.ctx, &dm.ctx); }
        _ => {}
    }
    assert(witn(n, dm));
}

/// a fresh run of a closed program satisfies the invariant (both `try_iter` and `try_iter_static` start like this:
/// [C15.iter.fresh-state] / [C15.static.fresh-state])
proof fn lemma_ni_start(stmts: Seq<Stmt>, ctx: EvalContext)
    requires prog_closed(stmts), ctx.wf(), ctx.vars.values@.len() == 0, ctx.vars.frame_stack@.len() == 0
    ensures ni_inv(Config { k: seq![Frame::Block(stmts)], ctx }) // [C15.ni.start]
{
    let k = seq![Frame::Block(stmts)];
    let v = ctx.vars.values@;
    let s = ni_scope(v, 0);
    lemma_block_mono(stmts, |x: Seq<char>| false, s);
    assert(k.skip(1).len() == 0);
    assert(k_closed(k.skip(1), v, ctx.vars.frame_stack@, 0, 0));
    assert(k[0] == Frame::Block(stmts));
}

/// C15 stated over the contract of `get_row` / `next` (spec/shape.spec.rs: got_row), which both the dynamic and the static
/// iterator satisfy: when a row was fetched from the program with the answer in `old_ctx` stored, the run that has any other
/// answer stored (`other`) emits the same source row `src` and moves to the same continuation; the evaluated row - complete
/// input vector, expected values, line - is a function of `src`, the column binding and the previous entries only
/// (row_matches, expand_spec), so it is the same row.
spec fn ni_wrc(src: RowS, d2: Config) -> bool { true }
proof fn theorem_got_row_ni<'a>(old: DataRowIteratorTestData<'a>, old_ctx: EvalContext, fin: DataRowIteratorTestData<'a>, fin_ctx: EvalContext,
        row: EvaluatedRow<'a>, other: EvalContext)
    requires
        DataRowIteratorTestData::got_row(old, old_ctx, fin, fin_ctx, row), old.cache@.len() == 0,
        ni_sim(old_ctx, other), ni_inv(abs(old.iter, old_ctx)),
    ensures
        ni_inv(abs(fin.iter, fin_ctx)),
        exists|src: RowS, d2: Config| #[trigger] ni_wrc(src, d2)
            && emits(abs(old.iter, old_ctx), abs(fin.iter, fin_ctx), src)
            && emits(abs(old.iter, other), d2, src)
            && d2.k == fin.iter.abs_k() && ni_sim(fin_ctx, d2.ctx) && d2.ctx.outputs == other.outputs
            && old.cols().expand_spec(src).len() > 0 && fin.row_matches(row, old.cols().expand_spec(src)[0], old.prev), // [C15.ni.got-row]
{
    let p = choose|p: Seq<RowS>| #[trigger] p.len() > 0
        && (old.cache@.len() > 0 ==> p == old.pending(old.cache@) && fin.iter == old.iter && fin_ctx == old_ctx)
        && (old.cache@.len() == 0 ==> (exists|src: RowS| #[trigger] emits(abs(old.iter, old_ctx), abs(fin.iter, fin_ctx), src)
            && p == old.cols().expand_spec(src)))
        && fin.pending(fin.cache@) == p.skip(1)
        && fin.row_matches(row, p[0], old.prev)
        && (fin.prev matches Some(pv) && pv@ == p[0].entries);
    let src = choose|src: RowS| #[trigger] emits(abs(old.iter, old_ctx), abs(fin.iter, fin_ctx), src) && p == old.cols().expand_spec(src);
    let d1 = abs(old.iter, other);
    let d2 = theorem_emits_ni(abs(old.iter, old_ctx), abs(fin.iter, fin_ctx), src, d1);
    assert(ni_wrc(src, d2));
}
