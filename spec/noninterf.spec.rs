// ---- C15: a program that reads no outputs runs the same whatever the driver answers (non-interference) ----
//
// Lemmas over the reference machine of spec/stmt.spec.rs (which `StmtIterator::next_with_context`, `get_row` and
// `DataRowIterator::next` are proved to refine). Two configurations that differ ONLY in the stored driver answer
// (`ctx.outputs`) take the same steps with the same labels, provided the program is *closed*: every identifier an
// expression reads is, on every path that reaches it, a variable in scope (bound by an earlier `let` of the same block or
// of an enclosing block on the way in, or the counter of an enclosing loop). Closedness is a syntactic condition written
// from C01's scoping rules; names first bound inside a `while` body do NOT count as bound behind the loop (the body may
// run zero times) - that is exactly the case in which the property is false (finding F-while-scope, DESIGN 11.5).

/// index carrier for triggers
spec fn nw(i: int) -> bool { true }

/// environments that differ at most in the driver's last answer
spec fn ni_sim(a: EvalContext, b: EvalContext) -> bool {
    a.vars == b.vars && a.alt_vars == b.alt_vars && a.seed == b.seed && a.rng == b.rng
}
spec fn ni_cfg(c: Config, d: Config) -> bool { c.k == d.k && ni_sim(c.ctx, d.ctx) }
/// `c`'s scopes with `d`'s driver answer
spec fn ni_with_outputs(c: EvalContext, d: EvalContext) -> EvalContext {
    EvalContext { vars: c.vars, alt_vars: c.alt_vars, outputs: d.outputs, seed: c.seed, rng: c.rng }
}

/// one of the first n bindings (oldest first) binds x
spec fn ni_has(v: Seq<(String, i64)>, n: int, x: Seq<char>) -> bool {
    exists|i: int| #[trigger] nw(i) && 0 <= i < n && i < v.len() && v[i].0@ == x
}
spec fn ni_scope(v: Seq<(String, i64)>, n: int) -> spec_fn(Seq<char>) -> bool { |x: Seq<char>| ni_has(v, n, x) }
spec fn ni_add(s: spec_fn(Seq<char>) -> bool, name: Seq<char>) -> spec_fn(Seq<char>) -> bool { |x: Seq<char>| s(x) || x == name }
/// the first m bindings carry the same names
spec fn ni_same_names(v: Seq<(String, i64)>, w: Seq<(String, i64)>, m: int) -> bool {
    m <= v.len() && m <= w.len() && forall|i: int| 0 <= i < m ==> (#[trigger] v[i]).0@ == w[i].0@
}

proof fn lemma_ni_var_of(v: Seq<(String, i64)>, x: Seq<char>)
    ensures (lookup_by(v, |k: String| k@ == x) is Some) == ni_has(v, v.len() as int, x)
    decreases v.len()
{
    let p = |k: String| k@ == x;
    if v.len() > 0 {
        let v0 = v.drop_last();
        lemma_ni_var_of(v0, x);
        if p(v.last().0) {
            assert(nw(v.len() - 1) && v[v.len() - 1].0@ == x);
        } else if ni_has(v0, v0.len() as int, x) {
            let i = choose|i: int| #[trigger] nw(i) && 0 <= i < v0.len() && v0[i].0@ == x;
            assert(nw(i) && v[i] == v0[i]);
        } else if ni_has(v, v.len() as int, x) {
            let i = choose|i: int| #[trigger] nw(i) && 0 <= i < v.len() && v[i].0@ == x;
            assert(nw(i) && i < v0.len() && v0[i] == v[i]);
        }
    }
}

// ---- closed expressions, rows, statements ----

/// every identifier e reads satisfies s
spec fn expr_closed(e: Expr, s: spec_fn(Seq<char>) -> bool) -> bool
    decreases e
{
    match e {
        Expr::Number(_) => true,
        Expr::Variable(name) => s(name@),
        Expr::UnaryOp { op, expr } => expr_closed(*expr, s),
        Expr::BinOp { op, left, right } => expr_closed(*left, s) && expr_closed(*right, s),
        Expr::Func { name, args } => forall|i: int| 0 <= i < args@.len() ==> expr_closed(#[trigger] args@[i], s),
    }
}
spec fn entry_closed(d: DataEntry, s: spec_fn(Seq<char>) -> bool) -> bool {
    match d {
        DataEntry::Expr(e) => expr_closed(e, s),
        DataEntry::Bits { number, expr } => expr_closed(expr, s),
        _ => true,
    }
}
/// one of the first i statements of the block is `let x = ...` (C01: it binds x for the rest of the block)
spec fn ni_let_in(ss: Seq<Stmt>, i: int, x: Seq<char>) -> bool {
    exists|j: int| #[trigger] nw(j) && 0 <= j < i && j < ss.len() && (ss[j] matches Stmt::Let { name, expr } && name@ == x)
}
spec fn ni_ext(s: spec_fn(Seq<char>) -> bool, ss: Seq<Stmt>, i: int) -> spec_fn(Seq<char>) -> bool { |x: Seq<char>| s(x) || ni_let_in(ss, i, x) }

/// statement t, reached with the names s bound, reads only variables. C01: a loop's body sees the counter and, statement by
/// statement, the names its own earlier `let`s bound; nothing bound inside a loop or a `while` body counts behind it.
spec fn stmt_closed(t: Stmt, s: spec_fn(Seq<char>) -> bool) -> bool
    decreases t
{
    match t {
        Stmt::Let { name, expr } => expr_closed(expr, s),
        Stmt::DataRow { data, line } => forall|i: int| 0 <= i < data@.len() ==> entry_closed(#[trigger] data@[i], s),
        Stmt::Loop { variable, max, inner } => expr_closed(max, s)
            && forall|i: int| #[trigger] nw(i) && 0 <= i < inner@.len() ==> stmt_closed(inner@[i], ni_ext(ni_add(s, variable@), inner@, i)),
        Stmt::While { condition, inner } => expr_closed(condition, s)
            && forall|i: int| #[trigger] nw(i) && 0 <= i < inner@.len() ==> stmt_closed(inner@[i], ni_ext(s, inner@, i)),
        Stmt::ResetRandom => true,
    }
}
spec fn block_closed(ss: Seq<Stmt>, s: spec_fn(Seq<char>) -> bool) -> bool {
    forall|i: int| #[trigger] nw(i) && 0 <= i < ss.len() ==> stmt_closed(ss[i], ni_ext(s, ss, i))
}
/// C15: the program reads no outputs
spec fn prog_closed(ss: Seq<Stmt>) -> bool { block_closed(ss, |x: Seq<char>| false) }

proof fn lemma_expr_mono(e: Expr, s: spec_fn(Seq<char>) -> bool, t: spec_fn(Seq<char>) -> bool)
    requires expr_closed(e, s), forall|x: Seq<char>| s(x) ==> #[trigger] t(x)
    ensures expr_closed(e, t)
    decreases e
{
    match e {
        Expr::UnaryOp { op, expr } => { lemma_expr_mono(*expr, s, t); }
        Expr::BinOp { op, left, right } => { lemma_expr_mono(*left, s, t); lemma_expr_mono(*right, s, t); }
        Expr::Func { name, args } => {
            assert forall|i: int| 0 <= i < args@.len() implies expr_closed(#[trigger] args@[i], t) by { lemma_expr_mono(args@[i], s, t); }
        }
        _ => {}
    }
}
proof fn lemma_stmt_mono(u: Stmt, s: spec_fn(Seq<char>) -> bool, t: spec_fn(Seq<char>) -> bool)
    requires stmt_closed(u, s), forall|x: Seq<char>| s(x) ==> #[trigger] t(x)
    ensures stmt_closed(u, t)
    decreases u
{
    match u {
        Stmt::Let { name, expr } => { lemma_expr_mono(expr, s, t); }
        Stmt::DataRow { data, line } => {
            assert forall|i: int| 0 <= i < data@.len() implies entry_closed(#[trigger] data@[i], t) by {
                match data@[i] {
                    DataEntry::Expr(e) => { lemma_expr_mono(e, s, t); }
                    DataEntry::Bits { number, expr } => { lemma_expr_mono(expr, s, t); }
                    _ => {}
                }
            }
        }
        Stmt::Loop { variable, max, inner } => {
            lemma_expr_mono(max, s, t);
            assert forall|i: int| #[trigger] nw(i) && 0 <= i < inner@.len() implies stmt_closed(inner@[i], ni_ext(ni_add(t, variable@), inner@, i)) by {
                lemma_stmt_mono(inner@[i], ni_ext(ni_add(s, variable@), inner@, i), ni_ext(ni_add(t, variable@), inner@, i));
            }
        }
        Stmt::While { condition, inner } => {
            lemma_expr_mono(condition, s, t);
            assert forall|i: int| #[trigger] nw(i) && 0 <= i < inner@.len() implies stmt_closed(inner@[i], ni_ext(t, inner@, i)) by {
                lemma_stmt_mono(inner@[i], ni_ext(s, inner@, i), ni_ext(t, inner@, i));
            }
        }
        Stmt::ResetRandom => {}
    }
}
proof fn lemma_block_mono(ss: Seq<Stmt>, s: spec_fn(Seq<char>) -> bool, t: spec_fn(Seq<char>) -> bool)
    requires block_closed(ss, s), forall|x: Seq<char>| s(x) ==> #[trigger] t(x)
    ensures block_closed(ss, t)
{
    assert forall|i: int| #[trigger] nw(i) && 0 <= i < ss.len() implies stmt_closed(ss[i], ni_ext(t, ss, i)) by {
        lemma_stmt_mono(ss[i], ni_ext(s, ss, i), ni_ext(t, ss, i));
    }
}
/// the rest of a block after its first statement, with the names that statement leaves bound
proof fn lemma_block_rest(ss: Seq<Stmt>, s: spec_fn(Seq<char>) -> bool, t: spec_fn(Seq<char>) -> bool)
    requires
        ss.len() > 0, block_closed(ss, s), forall|x: Seq<char>| s(x) ==> #[trigger] t(x),
        ss[0] matches Stmt::Let { name, expr } ==> t(name@),
    ensures block_closed(ss.skip(1), t)
{
    let r = ss.skip(1);
    assert forall|i: int| #[trigger] nw(i) && 0 <= i < r.len() implies stmt_closed(r[i], ni_ext(t, r, i)) by {
        assert(nw(i + 1) && r[i] == ss[i + 1]);
        assert forall|x: Seq<char>| ni_ext(s, ss, i + 1)(x) implies #[trigger] ni_ext(t, r, i)(x) by {
            if !s(x) {
                let j = choose|j: int| #[trigger] nw(j) && 0 <= j < i + 1 && j < ss.len() && (ss[j] matches Stmt::Let { name, expr } && name@ == x);
                if j > 0 { assert(nw(j - 1) && r[j - 1] == ss[j]); }
            }
        }
        lemma_stmt_mono(ss[i + 1], ni_ext(s, ss, i + 1), ni_ext(t, r, i));
    }
}
/// what the first statement of a closed block may read
proof fn lemma_block_first(ss: Seq<Stmt>, s: spec_fn(Seq<char>) -> bool)
    requires ss.len() > 0, block_closed(ss, s)
    ensures stmt_closed(ss[0], s)
{
    assert(nw(0));
    assert forall|x: Seq<char>| ni_ext(s, ss, 0)(x) implies #[trigger] s(x) by {}
    lemma_stmt_mono(ss[0], ni_ext(s, ss, 0), s);
}

// ---- evaluation does not look at the driver's answer when every identifier is a variable ----

proof fn lemma_eval_ni(e: Expr, a: &EvalContext, b: &EvalContext, r: Result<i64, ExprError>)
    requires ni_sim(*a, *b), expr_closed(e, ni_scope(a.vars.values@, a.vars.values@.len() as int)), eval_rel(e, a, r)
    ensures eval_rel(e, b, r)
    decreases e
{
    match e {
        Expr::Number(n) => {}
        Expr::Variable(name) => {
            lemma_ni_var_of(a.vars.values@, name@);
            assert(ni_scope(a.vars.values@, a.vars.values@.len() as int)(name@));
            assert(ni_has(a.vars.values@, a.vars.values@.len() as int, name@));
            assert(lookup_by(a.vars.values@, |k: String| k@ == name@) is Some);
            assert(a.var_of(name@) is Some);
            assert(a.var_of(name@) == b.var_of(name@));
            assert(a.read(name@) == b.read(name@));
            assert(eval_rel(e, b, r));
        }
        Expr::UnaryOp { op, expr } => {
            let r1 = choose|r1: Result<i64, ExprError>| #[trigger] wit(r1) && eval_rel(*expr, a, r1) && match r1 {
                Ok(v) => r == Ok::<i64, ExprError>(unop_spec(op, v)),
                Err(_) => r is Err,
            };
            lemma_eval_ni(*expr, a, b, r1);
            assert(wit(r1));
            assert(eval_rel(e, b, r));
        }
        Expr::BinOp { op, left, right } => {
            let rl = choose|rl: Result<i64, ExprError>| #[trigger] wit(rl) && eval_rel(*left, a, rl) && match rl {
                Err(_) => r is Err,
                Ok(x) => exists|rr: Result<i64, ExprError>| #[trigger] wit(rr) && eval_rel(*right, a, rr) && match rr {
                    Err(_) => r is Err,
                    Ok(y) => match binop_spec(op, x, y) {
                        Some(v) => r == Ok::<i64, ExprError>(v),
                        None => r is Err,
                    },
                },
            };
            lemma_eval_ni(*left, a, b, rl);
            assert(wit(rl));
            if let Ok(x) = rl {
                let rr = choose|rr: Result<i64, ExprError>| #[trigger] wit(rr) && eval_rel(*right, a, rr) && match rr {
                    Err(_) => r is Err,
                    Ok(y) => match binop_spec(op, x, y) {
                        Some(v) => r == Ok::<i64, ExprError>(v),
                        None => r is Err,
                    },
                };
                lemma_eval_ni(*right, a, b, rr);
                assert(wit(rr));
            }
            assert(eval_rel(e, b, r));
        }
        Expr::Func { name, args } => {
            if name@ == "ite"@ && args@.len() == 3 {
                let rc = choose|rc: Result<i64, ExprError>| #[trigger] wit(rc) && eval_rel(args@[0], a, rc) && match rc {
                    Err(_) => r is Err,
                    Ok(c) => if c != 0 { eval_rel(args@[1], a, r) } else { eval_rel(args@[2], a, r) },
                };
                lemma_eval_ni(args@[0], a, b, rc);
                assert(wit(rc));
                if let Ok(c) = rc {
                    if c != 0 { lemma_eval_ni(args@[1], a, b, r); } else { lemma_eval_ni(args@[2], a, b, r); }
                }
            } else if name@ == "random"@ && args@.len() == 1 {
                let rm = choose|rm: Result<i64, ExprError>| #[trigger] wit(rm) && eval_rel(args@[0], a, rm) && match rm {
                    Err(_) => r is Err,
                    Ok(n) => n >= 2 ==> (r is Ok && 0 <= r->Ok_0 < n),
                };
                lemma_eval_ni(args@[0], a, b, rm);
                assert(wit(rm));
            }
            assert(eval_rel(e, b, r));
        }
    }
}
proof fn lemma_entry_ni(d: DataEntry, a: &EvalContext, b: &EvalContext, out: Seq<DataEntry>)
    requires ni_sim(*a, *b), entry_closed(d, ni_scope(a.vars.values@, a.vars.values@.len() as int)), entry_rel(d, a, out)
    ensures entry_rel(d, b, out)
{
    match d {
        DataEntry::Expr(e) => {
            let rr = choose|rr: Result<i64, ExprError>| #[trigger] wit(rr) && rr is Ok && eval_rel(e, a, rr) && out =~= seq![DataEntry::Number(rr->Ok_0)];
            lemma_eval_ni(e, a, b, rr);
            assert(wit(rr));
        }
        DataEntry::Bits { number, expr } => {
            let rr = choose|rr: Result<i64, ExprError>| #[trigger] wit(rr) && rr is Ok && eval_rel(expr, a, rr) && out.len() == number
                && (forall|i: int| 0 <= i < number ==> #[trigger] out[i] == DataEntry::Number((rr->Ok_0 >> ((number - 1 - i) as i64)) & 1));
            lemma_eval_ni(expr, a, b, rr);
            assert(wit(rr));
        }
        _ => {}
    }
}
proof fn lemma_entries_ni(data: Seq<DataEntry>, a: &EvalContext, b: &EvalContext, out: Seq<DataEntry>)
    requires
        ni_sim(*a, *b), entries_rel(data, a, out),
        forall|i: int| 0 <= i < data.len() ==> entry_closed(#[trigger] data[i], ni_scope(a.vars.values@, a.vars.values@.len() as int)),
    ensures entries_rel(data, b, out)
    decreases data.len()
{
    if data.len() > 0 {
        let (o1, o2) = choose|o1: Seq<DataEntry>, o2: Seq<DataEntry>| #[trigger] wits(o1, o2) && entries_rel(data.drop_last(), a, o1)
            && entry_rel(data.last(), a, o2) && out =~= o1 + o2;
        assert forall|i: int| 0 <= i < data.drop_last().len() implies entry_closed(#[trigger] data.drop_last()[i], ni_scope(a.vars.values@, a.vars.values@.len() as int)) by {
            assert(data.drop_last()[i] == data[i]);
        }
        lemma_entries_ni(data.drop_last(), a, b, o1);
        lemma_entry_ni(data.last(), a, b, o2);
        assert(wits(o1, o2));
    }
}
proof fn lemma_can_err_expr_ni(e: Expr, a: &EvalContext, b: &EvalContext)
    requires ni_sim(*a, *b), expr_closed(e, ni_scope(a.vars.values@, a.vars.values@.len() as int)), eval_can_err(e, a)
    ensures eval_can_err(e, b)
{
    let rr = choose|rr: Result<i64, ExprError>| #[trigger] wit(rr) && rr is Err && eval_rel(e, a, rr);
    lemma_eval_ni(e, a, b, rr);
    assert(wit(rr));
}

// ---- the invariant: every frame of the continuation is closed with respect to the names that will be bound when it runs ----

/// frames, innermost first; `n` bindings are visible to the frames of the current loop level and `d` loop scopes are open
/// around them. A `Loop` frame closes a level: when it ends, its scope goes, leaving the first fs[d-1] bindings and d-1 scopes.
spec fn k_closed(k: Seq<Frame>, v: Seq<(String, i64)>, fs: Seq<usize>, n: int, d: int) -> bool
    decreases k.len()
{
    if k.len() == 0 { true } else {
        let s = ni_scope(v, n);
        match k[0] {
            Frame::Block(ss) => block_closed(ss, s) && k_closed(k.skip(1), v, fs, n, d),
            Frame::While { cond, body } => expr_closed(cond, s) && block_closed(body, s) && k_closed(k.skip(1), v, fs, n, d),
            Frame::LoopEntry { var, bound, body } => block_closed(body, ni_add(s, var)) && k_closed(k.skip(1), v, fs, n, d),
            Frame::Loop { var, bound, body, counter } => 1 <= d <= fs.len() && fs[d - 1] <= n && n <= v.len() && ni_has(v, n, var)
                && block_closed(body, ni_add(ni_scope(v, fs[d - 1] as int), var))
                && k_closed(k.skip(1), v, fs, fs[d - 1] as int, d - 1),
        }
    }
}
spec fn ni_inv(c: Config) -> bool {
    c.ctx.wf() && k_closed(c.k, c.ctx.vars.values@, c.ctx.vars.frame_stack@, c.ctx.vars.values@.len() as int, c.ctx.vars.frame_stack@.len() as int)
}

proof fn lemma_scope_same(v: Seq<(String, i64)>, w: Seq<(String, i64)>, m: int, j: int, x: Seq<char>)
    requires ni_same_names(v, w, m), j <= m, ni_has(v, j, x)
    ensures ni_has(w, j, x)
{
    let i = choose|i: int| #[trigger] nw(i) && 0 <= i < j && i < v.len() && v[i].0@ == x;
    assert(nw(i) && w[i].0@ == v[i].0@);
}

/// the invariant of the outer levels only looks at the bindings and scopes that stay
proof fn lemma_k_ext(k: Seq<Frame>, v: Seq<(String, i64)>, fs: Seq<usize>, w: Seq<(String, i64)>, gs: Seq<usize>, n: int, d: int)
    requires
        k_closed(k, v, fs, n, d), ni_same_names(v, w, n), 0 <= d <= fs.len(), d <= gs.len(),
        forall|j: int| 0 <= j < d ==> fs[j] == gs[j],
    ensures k_closed(k, w, gs, n, d)
    decreases k.len()
{
    if k.len() > 0 {
        let s = ni_scope(v, n);
        let t = ni_scope(w, n);
        assert forall|x: Seq<char>| s(x) implies #[trigger] t(x) by { lemma_scope_same(v, w, n, n, x); }
        match k[0] {
            Frame::Block(ss) => { lemma_block_mono(ss, s, t); lemma_k_ext(k.skip(1), v, fs, w, gs, n, d); }
            Frame::While { cond, body } => { lemma_expr_mono(cond, s, t); lemma_block_mono(body, s, t); lemma_k_ext(k.skip(1), v, fs, w, gs, n, d); }
            Frame::LoopEntry { var, bound, body } => {
                assert forall|x: Seq<char>| ni_add(s, var)(x) implies #[trigger] ni_add(t, var)(x) by {}
                lemma_block_mono(body, ni_add(s, var), ni_add(t, var));
                lemma_k_ext(k.skip(1), v, fs, w, gs, n, d);
            }
            Frame::Loop { var, bound, body, counter } => {
                let m = fs[d - 1] as int;
                lemma_scope_same(v, w, n, n, var);
                let s0 = ni_scope(v, m);
                let t0 = ni_scope(w, m);
                assert forall|x: Seq<char>| ni_add(s0, var)(x) implies #[trigger] ni_add(t0, var)(x) by {
                    if s0(x) { lemma_scope_same(v, w, n, m, x); }
                }
                lemma_block_mono(body, ni_add(s0, var), ni_add(t0, var));
                assert(ni_same_names(v, w, m));
                lemma_k_ext(k.skip(1), v, fs, w, gs, m, d - 1);
            }
        }
    }
}

/// more bindings in the current level (a `let`, a counter update): everything stays closed
proof fn lemma_k_grow(k: Seq<Frame>, v: Seq<(String, i64)>, fs: Seq<usize>, n: int, d: int, w: Seq<(String, i64)>, n2: int)
    requires
        k_closed(k, v, fs, n, d), n <= v.len(), n <= n2 <= w.len(), ni_same_names(v, w, n), 0 <= d <= fs.len(),
    ensures k_closed(k, w, fs, n2, d)
    decreases k.len()
{
    if k.len() > 0 {
        let s = ni_scope(v, n);
        let t = ni_scope(w, n2);
        assert forall|x: Seq<char>| s(x) implies #[trigger] t(x) by {
            lemma_scope_same(v, w, n, n, x);
            let i = choose|i: int| #[trigger] nw(i) && 0 <= i < n && i < w.len() && w[i].0@ == x;
            assert(nw(i));
        }
        match k[0] {
            Frame::Block(ss) => { lemma_block_mono(ss, s, t); lemma_k_grow(k.skip(1), v, fs, n, d, w, n2); }
            Frame::While { cond, body } => { lemma_expr_mono(cond, s, t); lemma_block_mono(body, s, t); lemma_k_grow(k.skip(1), v, fs, n, d, w, n2); }
            Frame::LoopEntry { var, bound, body } => {
                assert forall|x: Seq<char>| ni_add(s, var)(x) implies #[trigger] ni_add(t, var)(x) by {}
                lemma_block_mono(body, ni_add(s, var), ni_add(t, var));
                lemma_k_grow(k.skip(1), v, fs, n, d, w, n2);
            }
            Frame::Loop { var, bound, body, counter } => {
                let m = fs[d - 1] as int;
                assert(t(var));
                let s0 = ni_scope(v, m);
                let t0 = ni_scope(w, m);
                assert forall|x: Seq<char>| ni_add(s0, var)(x) implies #[trigger] ni_add(t0, var)(x) by {
                    if s0(x) { lemma_scope_same(v, w, n, m, x); }
                }
                lemma_block_mono(body, ni_add(s0, var), ni_add(t0, var));
                assert(ni_same_names(v, w, m));
                lemma_k_ext(k.skip(1), v, fs, w, fs, m, d - 1);
            }
        }
    }
}

proof fn lemma_find_name_result(s: Seq<(String, i64)>, from: int, name: Seq<char>)
    requires 0 <= from
    ensures match find_name_from(s, from, name) { Some(i) => from <= i < s.len() && s[i].0@ == name, None => true }
    decreases s.len() - from
{
    if from < s.len() && s[from].0@ != name { lemma_find_name_result(s, from + 1, name); }
}
/// `let` / counter update: the bindings that were there keep their names and places, and `name` is bound afterwards
proof fn lemma_bind_names(a: EvalContext, name: Seq<char>, val: i64, b: EvalContext)
    requires a.wf(), is_bind(a, name, val, b)
    ensures
        a.vars.values@.len() <= b.vars.values@.len(), ni_same_names(a.vars.values@, b.vars.values@, a.vars.values@.len() as int),
        ni_has(b.vars.values@, b.vars.values@.len() as int, name), b.vars.frame_stack@ == a.vars.frame_stack@,
{
    let v = a.vars.values@;
    let w = b.vars.values@;
    lemma_find_name_result(v, a.vars.frame_start(), name);
    match find_name_from(v, a.vars.frame_start(), name) {
        Some(i) => { assert(nw(i) && w[i].0@ == name); }
        None => {
            assert(nw(w.len() - 1));
            assert forall|i: int| 0 <= i < v.len() implies (#[trigger] v[i]).0@ == w[i].0@ by { assert(w.drop_last()[i] == w[i]); }
        }
    }
}

// ---- one step ----

/// C15: a step of a closed configuration does not depend on the driver's answer: the configuration with another
/// answer takes the same step (same label: the same row, with the same entries and line), and both stay closed
proof fn lemma_step_ni(c1: Config, c2: Config, l: Label, d1: Config) -> (d2: Config)
    requires step(c1, c2, l), ni_cfg(c1, d1), ni_inv(c1)
    ensures step(d1, d2, l), ni_cfg(c2, d2), ni_inv(c2), d2.ctx.outputs == d1.ctx.outputs
{
    let d2 = Config { k: c2.k, ctx: ni_with_outputs(c2.ctx, d1.ctx) };
    let v = c1.ctx.vars.values@;
    let fs = c1.ctx.vars.frame_stack@;
    let n = v.len() as int;
    let d = fs.len() as int;
    let s = ni_scope(v, n);
    let k = c1.k;
    assert(d1.ctx == ni_with_outputs(c1.ctx, d1.ctx));
    match k[0] {
        Frame::Block(ss) => {
            if ss.len() == 0 {
                match k[1] {
                    Frame::Loop { var, bound, body, counter } => {
                        assert(k.skip(1)[0] == k[1]);
                        assert(k.skip(1).skip(1) =~= k.skip(2));
                        let m = fs[d - 1] as int;
                        if counter + 1 < bound {
                            lemma_bind_names(c1.ctx, var, (counter + 1) as i64, c2.ctx);
                            let w = c2.ctx.vars.values@;
                            let n2 = w.len() as int;
                            let t = ni_scope(w, n2);
                            let s0 = ni_scope(v, m);
                            assert forall|x: Seq<char>| ni_add(s0, var)(x) implies #[trigger] t(x) by {
                                if s0(x) {
                                    lemma_scope_same(v, w, n, m, x);
                                    let i = choose|i: int| #[trigger] nw(i) && 0 <= i < m && i < w.len() && w[i].0@ == x;
                                    assert(nw(i));
                                }
                            }
                            lemma_block_mono(body, ni_add(s0, var), t);
                            let t0 = ni_scope(w, m);
                            assert forall|x: Seq<char>| ni_add(s0, var)(x) implies #[trigger] ni_add(t0, var)(x) by {
                                if s0(x) { lemma_scope_same(v, w, n, m, x); }
                            }
                            lemma_block_mono(body, ni_add(s0, var), ni_add(t0, var));
                            assert(ni_same_names(v, w, m));
                            lemma_k_ext(k.skip(2), v, fs, w, fs, m, d - 1);
                            let k2 = c2.k;
                            assert(k2[0] == Frame::Block(body));
                            assert(k2.skip(1)[0] == (Frame::Loop { var, bound, body, counter: (counter + 1) as i64 }));
                            assert(k2.skip(1).skip(1) =~= k.skip(2));
                        } else {
                            let w = c2.ctx.vars.values@;
                            assert(w =~= v.take(m));
                            assert(ni_same_names(v, w, m));
                            lemma_k_ext(k.skip(2), v, fs, w, c2.ctx.vars.frame_stack@, m, d - 1);
                        }
                    }
                    Frame::While { cond, body } => {}
                    _ => {}
                }
            } else {
                let rest = k.update(0, Frame::Block(ss.skip(1)));
                assert(rest[0] == Frame::Block(ss.skip(1)));
                assert(rest.skip(1) =~= k.skip(1));
                lemma_block_first(ss, s);
                match ss[0] {
                    Stmt::Let { name, expr } => {
                        let rr = choose|rr: Result<i64, ExprError>| #[trigger] wit(rr) && rr is Ok && eval_rel(expr, &c1.ctx, rr) && is_bind(c1.ctx, name@, rr->Ok_0, c2.ctx);
                        lemma_eval_ni(expr, &c1.ctx, &d1.ctx, rr);
                        assert(wit(rr));
                        lemma_bind_names(c1.ctx, name@, rr->Ok_0, c2.ctx);
                        let w = c2.ctx.vars.values@;
                        let n2 = w.len() as int;
                        let t = ni_scope(w, n2);
                        assert forall|x: Seq<char>| s(x) implies #[trigger] t(x) by {
                            lemma_scope_same(v, w, n, n, x);
                            let i = choose|i: int| #[trigger] nw(i) && 0 <= i < n && i < w.len() && w[i].0@ == x;
                            assert(nw(i));
                        }
                        lemma_block_rest(ss, s, t);
                        lemma_k_grow(k.skip(1), v, fs, n, d, w, n2);
                    }
                    Stmt::DataRow { data, line } => {
                        let r = l->Emit_0;
                        lemma_entries_ni(data@, &c1.ctx, &d1.ctx, r.entries);
                        lemma_block_rest(ss, s, s);
                    }
                    Stmt::Loop { variable, max, inner } => {
                        let rr = choose|rr: Result<i64, ExprError>| #[trigger] wit(rr) && rr is Ok && eval_rel(max, &c1.ctx, rr)
                            && c2.k =~= seq![Frame::LoopEntry { var: variable@, bound: rr->Ok_0, body: inner@ }] + rest;
                        lemma_eval_ni(max, &c1.ctx, &d1.ctx, rr);
                        assert(wit(rr));
                        lemma_block_rest(ss, s, s);
                        assert(block_closed(inner@, ni_add(s, variable@)));
                        assert(c2.k.skip(1) =~= rest);
                    }
                    Stmt::While { condition, inner } => {
                        lemma_block_rest(ss, s, s);
                        assert(block_closed(inner@, s));
                        assert(c2.k.skip(1) =~= rest);
                    }
                    Stmt::ResetRandom => {
                        lemma_block_rest(ss, s, s);
                    }
                }
            }
        }
        Frame::LoopEntry { var, bound, body } => {
            if bound > 0 {
                let cm = choose|cm: EvalContext| #[trigger] cm.wf() && is_push(c1.ctx, cm) && is_bind(cm, var, 0, c2.ctx);
                let dm = ni_with_outputs(cm, d1.ctx);
                assert(dm.wf() && is_push(d1.ctx, dm) && is_bind(dm, var, 0, d2.ctx));
                lemma_bind_names(cm, var, 0, c2.ctx);
                let w = c2.ctx.vars.values@;
                let gs = c2.ctx.vars.frame_stack@;
                let n2 = w.len() as int;
                let t = ni_scope(w, n2);
                assert(gs =~= fs.push(n as usize));
                assert(ni_same_names(v, w, n));
                assert forall|x: Seq<char>| ni_add(s, var)(x) implies #[trigger] t(x) by {
                    if s(x) {
                        lemma_scope_same(v, w, n, n, x);
                        let i = choose|i: int| #[trigger] nw(i) && 0 <= i < n && i < w.len() && w[i].0@ == x;
                        assert(nw(i));
                    }
                }
                lemma_block_mono(body, ni_add(s, var), t);
                let t0 = ni_scope(w, n);
                assert forall|x: Seq<char>| ni_add(s, var)(x) implies #[trigger] ni_add(t0, var)(x) by {
                    if s(x) { lemma_scope_same(v, w, n, n, x); }
                }
                lemma_block_mono(body, ni_add(s, var), ni_add(t0, var));
                lemma_k_ext(k.skip(1), v, fs, w, gs, n, d);
                let k2 = c2.k;
                assert(k2[0] == Frame::Block(body));
                assert(k2.skip(1)[0] == (Frame::Loop { var, bound, body, counter: 0 }));
                assert(k2.skip(1).skip(1) =~= k.skip(1));
                assert(gs[gs.len() - 1] == n);
            }
        }
        Frame::While { cond, body } => {
            let rr = choose|rr: Result<i64, ExprError>| #[trigger] wit(rr) && rr is Ok && eval_rel(cond, &c1.ctx, rr)
                && (if rr->Ok_0 != 0 { c2.k =~= seq![Frame::Block(body)] + c1.k } else { c2.k =~= c1.k.skip(1) });
            lemma_eval_ni(cond, &c1.ctx, &d1.ctx, rr);
            assert(wit(rr));
            if rr->Ok_0 != 0 { assert(c2.k.skip(1) =~= k); }
        }
        Frame::Loop { var, bound, body, counter } => {}
    }
    d2
}

/// ... and so do any number of silent steps
proof fn lemma_reach_ni(c1: Config, c2: Config, n: nat, d1: Config) -> (d2: Config)
    requires reach(c1, c2, n), ni_cfg(c1, d1), ni_inv(c1)
    ensures reach(d1, d2, n), ni_cfg(c2, d2), ni_inv(c2), d2.ctx.outputs == d1.ctx.outputs
    decreases n
{
    if n == 0 { d1 } else {
        let cm = choose|cm: Config| #[trigger] witc(cm) && step(c1, cm, Label::Silent) && reach(cm, c2, (n - 1) as nat);
        let dm = lemma_step_ni(c1, cm, Label::Silent, d1);
        let d2 = lemma_reach_ni(cm, c2, (n - 1) as nat, dm);
        assert(witc(dm));
        d2
    }
}

/// C15, rows: whatever row the program can yield next with one driver answer stored, it can yield with any other, and the
/// two runs continue from configurations that again differ only in the stored answer
proof fn theorem_emits_ni(c1: Config, c2: Config, row: RowS, d1: Config) -> (d2: Config)
    requires emits(c1, c2, row), ni_cfg(c1, d1), ni_inv(c1)
    ensures emits(d1, d2, row), ni_cfg(c2, d2), ni_inv(c2), d2.ctx.outputs == d1.ctx.outputs
{
    let (n, cm) = choose|n: nat, cm: Config| #[trigger] witn(n, cm) && reach(c1, cm, n) && step(cm, c2, Label::Emit(row));
    let dm = lemma_reach_ni(c1, cm, n, d1);
    let d2 = lemma_step_ni(cm, c2, Label::Emit(row), dm);
    assert(witn(n, dm));
    d2
}
/// C15, end of the test: if the program can run to its end without a further row with one answer, it can with any other
proof fn theorem_silent_ni(c1: Config, c2: Config, d1: Config) -> (d2: Config)
    requires silent_to(c1, c2), ni_cfg(c1, d1), ni_inv(c1)
    ensures silent_to(d1, d2), ni_cfg(c2, d2), ni_inv(c2), d2.ctx.outputs == d1.ctx.outputs
{
    let n = choose|n: nat| #[trigger] witnn(n) && reach(c1, c2, n);
    let d2 = lemma_reach_ni(c1, c2, n, d1);
    assert(witnn(n));
    d2
}
/// C15, error items: an evaluation can fail in the one run exactly if it can in the other
proof fn theorem_err_ni(c1: Config, d1: Config)
    requires err_reachable(c1), ni_cfg(c1, d1), ni_inv(c1)
    ensures err_reachable(d1)
{
    let (n, cm) = choose|n: nat, cm: Config| #[trigger] witn(n, cm) && reach(c1, cm, n) && can_err(cm);
    let dm = lemma_reach_ni(c1, cm, n, d1);
    let v = cm.ctx.vars.values@;
    let s = ni_scope(v, v.len() as int);
    match cm.k[0] {
        Frame::Block(ss) => {
            lemma_block_first(ss, s);
            match ss[0] {
                Stmt::Let { name, expr } => { lemma_can_err_expr_ni(expr, &cm.ctx, &dm.ctx); }
                Stmt::DataRow { data, line } => {
                    let i = choose|i: int| 0 <= i < data@.len() && entry_can_err(#[trigger] data@[i], &cm.ctx);
                    match data@[i] {
                        DataEntry::Expr(e) => { lemma_can_err_expr_ni(e, &cm.ctx, &dm.ctx); }
                        DataEntry::Bits { number, expr } => { lemma_can_err_expr_ni(expr, &cm.ctx, &dm.ctx); }
                        _ => {}
                    }
                    assert(entry_can_err(data@[i], &dm.ctx));
                }
                Stmt::Loop { variable, max, inner } => { lemma_can_err_expr_ni(max, &cm.ctx, &dm.ctx); }
                _ => {}
            }
        }
        Frame::While { cond, body } => { lemma_can_err_expr_ni(cond, &cm.ctx, &dm.ctx); }
        _ => {}
    }
    assert(witn(n, dm));
}

/// a fresh run of a closed program satisfies the invariant (both `try_iter` and `try_iter_static` start like this:
/// [C15.iter.fresh-state] / [C15.static.fresh-state])
proof fn lemma_ni_start(stmts: Seq<Stmt>, ctx: EvalContext)
    requires prog_closed(stmts), ctx.wf(), ctx.vars.values@.len() == 0, ctx.vars.frame_stack@.len() == 0
    ensures ni_inv(Config { k: seq![Frame::Block(stmts)], ctx })
{
    let k = seq![Frame::Block(stmts)];
    let v = ctx.vars.values@;
    let s = ni_scope(v, 0);
    lemma_block_mono(stmts, |x: Seq<char>| false, s);
    assert(k.skip(1).len() == 0);
    assert(k_closed(k.skip(1), v, ctx.vars.frame_stack@, 0, 0));
    assert(k[0] == Frame::Block(stmts));
}
