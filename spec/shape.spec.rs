// ---- row shape: what the parser (C12) and the binding (C11) establish about every data row of an accepted test ----

/// number of row entries a source entry evaluates to
spec fn entry_width(d: DataEntry) -> int { match d { DataEntry::Bits { number, expr } => number as int, _ => 1 } }

spec fn data_width(data: Seq<DataEntry>) -> int
    decreases data.len()
{
    if data.len() == 0 { 0 } else { data_width(data.drop_last()) + entry_width(data.last()) }
}

/// the predicate on columns "bound to an input-capable signal" for a binding
spec fn inp_pred(cols: Cols) -> spec_fn(int) -> bool { |c: int| cols.col_is_input(c) }

/// the source row is `w` columns wide (bits(k,.) counting k) and every C stands in a column bound to an input
spec fn data_shape(data: Seq<DataEntry>, w: int, p: spec_fn(int) -> bool) -> bool {
    data_width(data) == w
        && forall|i: int| 0 <= i < data.len() && (#[trigger] data[i]) == DataEntry::C ==> p(data_width(data.take(i)))
}

/// an evaluated row: w entries, each a number, X, Z or C, C only in input columns
spec fn row_shape(e: Seq<DataEntry>, w: int, p: spec_fn(int) -> bool) -> bool {
    e.len() == w && forall|i: int| 0 <= i < e.len() ==>
        ((#[trigger] e[i]) is Number || e[i] is X || e[i] is Z || (e[i] is C && p(i)))
}

spec fn stmt_shape(s: Stmt, w: int, p: spec_fn(int) -> bool) -> bool
    decreases s
{
    match s {
        Stmt::DataRow { data, line } => data_shape(data@, w, p),
        Stmt::Loop { variable, max, inner } => forall|i: int| 0 <= i < inner@.len() ==> stmt_shape(#[trigger] inner@[i], w, p),
        Stmt::While { condition, inner } => forall|i: int| 0 <= i < inner@.len() ==> stmt_shape(#[trigger] inner@[i], w, p),
        _ => true,
    }
}
spec fn stmts_shape(ss: Seq<Stmt>, w: int, p: spec_fn(int) -> bool) -> bool { forall|i: int| 0 <= i < ss.len() ==> stmt_shape(#[trigger] ss[i], w, p) }
spec fn frame_shape(f: Frame, w: int, p: spec_fn(int) -> bool) -> bool {
    match f {
        Frame::Block(ss) => stmts_shape(ss, w, p),
        Frame::LoopEntry { var, bound, body } => stmts_shape(body, w, p),
        Frame::Loop { var, bound, body, counter } => stmts_shape(body, w, p),
        Frame::While { cond, body } => stmts_shape(body, w, p),
    }
}
spec fn k_shape(k: Seq<Frame>, w: int, p: spec_fn(int) -> bool) -> bool { forall|i: int| 0 <= i < k.len() ==> frame_shape(#[trigger] k[i], w, p) }

proof fn lemma_entry_rel_shape(d: DataEntry, ctx: &EvalContext, out: Seq<DataEntry>)
    requires entry_rel(d, ctx, out)
    ensures out.len() == entry_width(d),
        forall|j: int| 0 <= j < out.len() ==> ((#[trigger] out[j]) is Number || out[j] is X || out[j] is Z || out[j] is C),
        forall|j: int| 0 <= j < out.len() && (#[trigger] out[j]) is C ==> d == DataEntry::C && j == 0,
{
}

proof fn lemma_entries_rel_shape(data: Seq<DataEntry>, ctx: &EvalContext, out: Seq<DataEntry>, w: int, p: spec_fn(int) -> bool)
    requires entries_rel(data, ctx, out), data_shape(data, w, p)
    ensures row_shape(out, w, p)
    decreases data.len()
{
    lemma_entries_rel_len(data, ctx, out, data.len() as int);
    assert(data.take(data.len() as int) =~= data);
    assert forall|i: int| 0 <= i < out.len() implies
        ((#[trigger] out[i]) is Number || out[i] is X || out[i] is Z || (out[i] is C && p(i))) by {
        lemma_entries_rel_at(data, ctx, out, i);
    }
}

/// the output of the first n source entries occupies exactly data_width(first n) row entries
proof fn lemma_entries_rel_len(data: Seq<DataEntry>, ctx: &EvalContext, out: Seq<DataEntry>, n: int)
    requires entries_rel(data, ctx, out), n == data.len()
    ensures out.len() == data_width(data)
    decreases data.len()
{
    if data.len() > 0 {
        let (o1, o2) = choose|o1: Seq<DataEntry>, o2: Seq<DataEntry>| #[trigger] wits(o1, o2) && entries_rel(data.drop_last(), ctx, o1)
            && entry_rel(data.last(), ctx, o2) && out =~= o1 + o2;
        lemma_entries_rel_len(data.drop_last(), ctx, o1, n - 1);
        lemma_entry_rel_shape(data.last(), ctx, o2);
    }
}

proof fn lemma_data_width_take(data: Seq<DataEntry>, i: int)
    requires 0 <= i <= data.len()
    ensures data_width(data.take(i)) <= data_width(data), 0 <= data_width(data.take(i)),
        i < data.len() ==> data_width(data.take(i + 1)) == data_width(data.take(i)) + entry_width(data[i]),
    decreases data.len() - i
{
    lemma_data_width_nonneg(data.take(i));
    if i < data.len() {
        assert(data.take(i + 1).drop_last() =~= data.take(i));
        assert(data.take(i + 1).last() == data[i]);
        lemma_data_width_take(data, i + 1);
    } else {
        assert(data.take(i) =~= data);
    }
}
proof fn lemma_data_width_nonneg(data: Seq<DataEntry>)
    ensures data_width(data) >= 0
    decreases data.len()
{
    if data.len() > 0 { lemma_data_width_nonneg(data.drop_last()); }
}

/// every entry of an evaluated row is evaluated, and a C sits at the column its source entry starts at
proof fn lemma_entries_rel_at(data: Seq<DataEntry>, ctx: &EvalContext, out: Seq<DataEntry>, i: int)
    requires entries_rel(data, ctx, out), 0 <= i < out.len()
    ensures (out[i] is Number || out[i] is X || out[i] is Z || out[i] is C),
        out[i] is C ==> (exists|s: int| 0 <= s < data.len() && #[trigger] data[s] == DataEntry::C && data_width(data.take(s)) == i),
    decreases data.len()
{
    if data.len() > 0 {
        let (o1, o2) = choose|o1: Seq<DataEntry>, o2: Seq<DataEntry>| #[trigger] wits(o1, o2) && entries_rel(data.drop_last(), ctx, o1)
            && entry_rel(data.last(), ctx, o2) && out =~= o1 + o2;
        lemma_entries_rel_len(data.drop_last(), ctx, o1, data.len() - 1);
        lemma_entry_rel_shape(data.last(), ctx, o2);
        if i < o1.len() {
            lemma_entries_rel_at(data.drop_last(), ctx, o1, i);
            if out[i] is C {
                let s = choose|s: int| 0 <= s < data.drop_last().len() && #[trigger] data.drop_last()[s] == DataEntry::C && data_width(data.drop_last().take(s)) == i;
                assert(data.drop_last().take(s) =~= data.take(s));
                assert(data[s] == DataEntry::C);
            }
        } else {
            assert(out[i] == o2[i - o1.len()]);
            if out[i] is C {
                let s = data.len() - 1;
                assert(data.take(s) =~= data.drop_last());
                assert(data[s] == DataEntry::C);
            }
        }
    }
}

/// steps preserve the shape invariant, and an emitted row has the shape
proof fn lemma_step_shape(c1: Config, c2: Config, l: Label, w: int, p: spec_fn(int) -> bool)
    requires step(c1, c2, l), k_shape(c1.k, w, p)
    ensures k_shape(c2.k, w, p), l matches Label::Emit(r) ==> row_shape(r.entries, w, p)
{
    assert(frame_shape(c1.k[0], w, p));
    match c1.k[0] {
        Frame::Block(ss) => {
            if ss.len() == 0 {
                assert(frame_shape(c1.k[1], w, p));
                assert forall|i: int| 0 <= i < c2.k.len() implies frame_shape(#[trigger] c2.k[i], w, p) by {
                    match c1.k[1] {
                        Frame::Loop { var, bound, body, counter } => {
                            if counter + 1 < bound { if i >= 2 { assert(c2.k[i] == c1.k[i]); } } else { assert(c2.k[i] == c1.k[i + 2]); }
                        }
                        Frame::While { cond, body } => { assert(c2.k[i] == c1.k[i + 1]); }
                        _ => {}
                    }
                }
            } else {
                assert(stmt_shape(ss[0], w, p));
                let rest = c1.k.update(0, Frame::Block(ss.skip(1)));
                assert forall|i: int| 0 <= i < rest.len() implies frame_shape(#[trigger] rest[i], w, p) by {
                    if i == 0 { assert forall|j: int| 0 <= j < ss.skip(1).len() implies stmt_shape(#[trigger] ss.skip(1)[j], w, p) by { assert(ss.skip(1)[j] == ss[j + 1]); } }
                    else { assert(rest[i] == c1.k[i]); }
                }
                match ss[0] {
                    Stmt::DataRow { data, line } => {
                        let r = l->Emit_0;
                        lemma_entries_rel_shape(data@, &c1.ctx, r.entries, w, p);
                    }
                    Stmt::Loop { variable, max, inner } => {
                        assert forall|i: int| 0 <= i < c2.k.len() implies frame_shape(#[trigger] c2.k[i], w, p) by {
                            if i >= 1 { assert(c2.k[i] == rest[i - 1]); }
                        }
                    }
                    Stmt::While { condition, inner } => {
                        assert forall|i: int| 0 <= i < c2.k.len() implies frame_shape(#[trigger] c2.k[i], w, p) by {
                            if i >= 1 { assert(c2.k[i] == rest[i - 1]); }
                        }
                    }
                    _ => {}
                }
            }
        }
        Frame::LoopEntry { var, bound, body } => {
            assert forall|i: int| 0 <= i < c2.k.len() implies frame_shape(#[trigger] c2.k[i], w, p) by {
                if bound <= 0 { assert(c2.k[i] == c1.k[i + 1]); } else { if i >= 2 { assert(c2.k[i] == c1.k[i - 1]); } }
            }
        }
        Frame::While { cond, body } => {
            assert forall|i: int| 0 <= i < c2.k.len() implies frame_shape(#[trigger] c2.k[i], w, p) by {
                if c2.k.len() == c1.k.len() + 1 { if i >= 1 { assert(c2.k[i] == c1.k[i - 1]); } } else { assert(c2.k[i] == c1.k[i + 1]); }
            }
        }
        Frame::Loop { var, bound, body, counter } => {}
    }
}

proof fn lemma_reach_shape(c1: Config, c2: Config, n: nat, w: int, p: spec_fn(int) -> bool)
    requires reach(c1, c2, n), k_shape(c1.k, w, p)
    ensures k_shape(c2.k, w, p)
    decreases n
{
    if n > 0 {
        let cm = choose|cm: Config| #[trigger] witc(cm) && step(c1, cm, Label::Silent) && reach(cm, c2, (n - 1) as nat);
        lemma_step_shape(c1, cm, Label::Silent, w, p);
        lemma_reach_shape(cm, c2, (n - 1) as nat, w, p);
    }
}

proof fn lemma_emits_shape(c1: Config, c2: Config, row: RowS, w: int, p: spec_fn(int) -> bool)
    requires emits(c1, c2, row), k_shape(c1.k, w, p)
    ensures k_shape(c2.k, w, p), row_shape(row.entries, w, p)
{
    let (n, cm) = choose|n: nat, cm: Config| #[trigger] witn(n, cm) && reach(c1, cm, n) && step(cm, c2, Label::Emit(row));
    lemma_reach_shape(c1, cm, n, w, p);
    lemma_step_shape(cm, c2, Label::Emit(row), w, p);
}

proof fn lemma_silent_shape(c1: Config, c2: Config, w: int, p: spec_fn(int) -> bool)
    requires silent_to(c1, c2), k_shape(c1.k, w, p)
    ensures k_shape(c2.k, w, p)
{
    let n = choose|n: nat| #[trigger] witnn(n) && reach(c1, c2, n);
    lemma_reach_shape(c1, c2, n, w, p);
}

// ---- structure invariant of DataRowIteratorTestData ----

impl<'a> DataRowIteratorTestData<'a> {
    spec fn cols_disjoint(&self) -> bool {
        forall|c: int| !(self.cols().col_is_input(c) && self.cols().col_is_expected(c))
    }
    spec fn cache_shape(&self, w: int) -> bool {
        forall|k: int| 0 <= k < self.cache@.len() ==> row_shape((#[trigger] self.cache@[k]).entries@, w, inp_pred(self.cols()))
    }
    /// for rows of width w
    #[verifier::prophetic]
    spec fn td_inv_w(&self, w: int) -> bool {
        &&& self.wf_indices(w)
        &&& self.cols_disjoint()
        &&& self.cache_shape(w)
        &&& (self.prev matches Some(p) ==> p@.len() == w)
        &&& self.iter.wf_iter()
        &&& k_shape(self.iter.abs_k(), w, inp_pred(self.cols()))
    }
    #[verifier::prophetic]
    spec fn td_inv(&self) -> bool { exists|w: int| self.td_inv_w(w) }

    /// the evaluated row `row` presents the abstract row `head` (C06, C07). About the `changed` flags only what the statement
    /// of C06 says: an input that is not flagged carries the value it had in the previous vector (`prev` = the entries of the
    /// previous row), and inputs the header omits are never flagged. Flagging more than necessary is within the statement.
    spec fn row_matches(&self, row: EvaluatedRow<'a>, head: RowS, prev: Option<Vec<DataEntry>>) -> bool {
        &&& row.line == head.line
        &&& row.update_output == head.update_output
        &&& row.inputs@.len() == self.input_indices@.len()
        &&& (forall|k: int| 0 <= k < row.inputs@.len() ==> (#[trigger] row.inputs@[k]).signal == self.input_entry_spec(k, head.entries, Seq::empty()).signal
                && row.inputs@[k].value == self.input_entry_spec(k, head.entries, Seq::empty()).value
                && (self.input_indices@[k] is Default ==> !row.inputs@[k].changed)
                && (!row.inputs@[k].changed && self.input_indices@[k] is Entry ==>
                    (prev matches Some(p) && self.input_entry_spec(k, p@, Seq::empty()).value == row.inputs@[k].value)))
        &&& row.expected@.len() == self.expected_indices@.len()
        &&& (forall|k: int| 0 <= k < row.expected@.len() ==> #[trigger] row.expected@[k] == self.expected_entry_spec(k, head.entries))
    }

    /// what get_row establishes when it returns the evaluated row `row` (old: self before, fin: self after)
    #[verifier::prophetic]
    spec fn got_row(old: Self, old_ctx: EvalContext, fin: Self, fin_ctx: EvalContext, row: EvaluatedRow<'a>) -> bool {
        fin.td_inv() && (exists|p: Seq<RowS>| #[trigger] p.len() > 0
            // p: the rows still to come. From the stack if it is not empty (C05: nothing is re-evaluated) ...
            && (old.cache@.len() > 0 ==> p == old.pending(old.cache@) && fin.iter == old.iter && fin_ctx == old_ctx)
            // ... otherwise the expansion of the next row the program emits (C01)
            && (old.cache@.len() == 0 ==> (exists|src: RowS| #[trigger] emits(abs(old.iter, old_ctx), abs(fin.iter, fin_ctx), src)
                && p == old.cols().expand_spec(src)))
            // the first of them is returned, as complete vectors (C06/C07); the others stay pending, in order (C05)
            && fin.pending(fin.cache@) == p.skip(1)
            && fin.row_matches(row, p[0], old.prev)
            && (fin.prev matches Some(pv) && pv@ == p[0].entries))
    }
}

/// shape is monotone in the column predicate
proof fn lemma_stmt_shape_mono(s: Stmt, w: int, p: spec_fn(int) -> bool, q: spec_fn(int) -> bool)
    requires stmt_shape(s, w, p), forall|c: int| 0 <= c < w && p(c) ==> #[trigger] q(c)
    ensures stmt_shape(s, w, q)
    decreases s
{
    match s {
        Stmt::DataRow { data, line } => {
            assert forall|i: int| 0 <= i < data@.len() && (#[trigger] data@[i]) == DataEntry::C implies q(data_width(data@.take(i))) by {
                lemma_data_width_take(data@, i);
                lemma_data_width_take(data@, i + 1);
                assert(entry_width(data@[i]) == 1);
                assert(0 <= data_width(data@.take(i)) < w);
                assert(p(data_width(data@.take(i))));
            }
        }
        Stmt::Loop { variable, max, inner } => {
            assert forall|i: int| 0 <= i < inner@.len() implies stmt_shape(#[trigger] inner@[i], w, q) by { lemma_stmt_shape_mono(inner@[i], w, p, q); }
        }
        Stmt::While { condition, inner } => {
            assert forall|i: int| 0 <= i < inner@.len() implies stmt_shape(#[trigger] inner@[i], w, q) by { lemma_stmt_shape_mono(inner@[i], w, p, q); }
        }
        _ => {}
    }
}
proof fn lemma_stmts_shape_mono(ss: Seq<Stmt>, w: int, p: spec_fn(int) -> bool, q: spec_fn(int) -> bool)
    requires stmts_shape(ss, w, p), forall|c: int| 0 <= c < w && p(c) ==> #[trigger] q(c)
    ensures stmts_shape(ss, w, q)
{
    assert forall|i: int| 0 <= i < ss.len() implies stmt_shape(#[trigger] ss[i], w, q) by { lemma_stmt_shape_mono(ss[i], w, p, q); }
}

/// dropping statements from the head of the first block keeps the shape
proof fn lemma_fails_shape(c1: Config, c2: Config, w: int, p: spec_fn(int) -> bool)
    requires fails(c1, c2), k_shape(c1.k, w, p)
    ensures k_shape(c2.k, w, p)
{
    let (n, cm) = choose|n: nat, cm: Config| #[trigger] witn(n, cm) && reach(c1, cm, n) && drop_head(cm, c2);
    lemma_reach_shape(c1, cm, n, w, p);
    if c2.k != cm.k {
        let ss = cm.k[0]->Block_0;
        let j = choose|j: int| 0 <= j <= ss.len() && #[trigger] wj(j) && c2.k == cm.k.update(0, Frame::Block(ss.skip(j)));
        assert forall|i: int| 0 <= i < c2.k.len() implies frame_shape(#[trigger] c2.k[i], w, p) by {
            if i == 0 {
                assert(frame_shape(cm.k[0], w, p));
                assert forall|m: int| 0 <= m < ss.skip(j).len() implies stmt_shape(#[trigger] ss.skip(j)[m], w, p) by { assert(ss.skip(j)[m] == ss[m + j]); }
            } else { assert(c2.k[i] == cm.k[i]); }
        }
    }
}
