// ---- C01: reference small-step machine for test programs, written from the statement ----
//
// A configuration is a continuation (innermost frame first) plus the evaluation context. One step executes
// one statement, enters / re-tests / leaves a loop, or ends a block. `let`, loop entry and loop exit act on
// the scope stack exactly as the statement prescribes: loop/repeat open a scope that holds the counter,
// `while` opens none, `let` (re)binds in the innermost scope, leaving a loop drops its whole scope.

enum Frame {
    /// statements of the current block still to run
    Block(Seq<Stmt>),
    /// loop(var, bound): bound already evaluated (once, on entry), not yet compared
    LoopEntry { var: Seq<char>, bound: i64, body: Seq<Stmt> },
    /// an iteration of the loop with this counter value is in progress (its body block is the frame above)
    Loop { var: Seq<char>, bound: i64, body: Seq<Stmt>, counter: i64 },
    /// while(cond): to be (re-)tested when on top, otherwise its body block is the frame above
    While { cond: Expr, body: Seq<Stmt> },
}

ghost struct Config { k: Seq<Frame>, ctx: EvalContext }

enum Label { Silent, Emit(RowS) }

// --- effects on the scope stack (these are the C01 scoping rules; EvalContext's methods are proved against them) ---

spec fn ctx_frame_eq(a: EvalContext, b: EvalContext) -> bool {
    b.alt_vars == a.alt_vars && b.outputs == a.outputs && b.seed == a.seed && b.rng == a.rng
}
/// open an empty innermost scope
spec fn is_push(a: EvalContext, b: EvalContext) -> bool {
    b.wf() && b.vars.values@ == a.vars.values@
        && b.vars.frame_stack@ == a.vars.frame_stack@.push(a.vars.values@.len() as usize) && ctx_frame_eq(a, b)
}
/// drop the innermost scope with everything bound in it; what it shadowed is visible again
spec fn is_pop(a: EvalContext, b: EvalContext) -> bool {
    b.wf() && b.vars.values@ == a.vars.values@.take(a.vars.frame_start())
        && (a.vars.frame_stack@.len() > 0 ==> b.vars.frame_stack@ == a.vars.frame_stack@.drop_last())
        && (a.vars.frame_stack@.len() == 0 ==> b.vars.frame_stack@ == a.vars.frame_stack@) && ctx_frame_eq(a, b)
}
/// bind or rebind `name` in the innermost scope
spec fn is_bind(a: EvalContext, name: Seq<char>, v: i64, b: EvalContext) -> bool {
    b.wf() && b.vars.frame_stack@ == a.vars.frame_stack@ && ctx_frame_eq(a, b)
        && match find_name_from(a.vars.values@, a.vars.frame_start(), name) {
            Some(i) => b.vars.values@ == a.vars.values@.update(i, (a.vars.values@[i].0, v)),
            None => b.vars.values@.len() == a.vars.values@.len() + 1 && b.vars.values@.drop_last() == a.vars.values@
                && b.vars.values@.last().0@ == name && b.vars.values@.last().1 == v,
        }
}
/// resetRandom: the generator restarts from the run's seed
spec fn is_reset(a: EvalContext, b: EvalContext) -> bool {
    b.rng == rng_fresh(a.seed) && b.seed == a.seed && b.vars == a.vars && b.alt_vars == a.alt_vars && b.outputs == a.outputs
}

// --- evaluation of row entries ---

spec fn witv(v: i64) -> bool { true }
spec fn wits(a: Seq<DataEntry>, b: Seq<DataEntry>) -> bool { true }
spec fn witc(c: Config) -> bool { true }
spec fn witn(n: nat, c: Config) -> bool { true }
spec fn witnn(n: nat) -> bool { true }
spec fn wite(e: ExprError) -> bool { true }

/// one source entry evaluates to these row entries: an expression to one number, bits(k,e) to k one-bit
/// numbers most significant first, literals / X / Z / C to themselves
spec fn entry_rel(d: DataEntry, ctx: &EvalContext, out: Seq<DataEntry>) -> bool {
    match d {
        DataEntry::Expr(e) => exists|rr: Result<i64, ExprError>| #[trigger] wit(rr) && rr is Ok && eval_rel(e, ctx, rr) && out =~= seq![DataEntry::Number(rr->Ok_0)],
        DataEntry::Bits { number, expr } => exists|rr: Result<i64, ExprError>| #[trigger] wit(rr) && rr is Ok && eval_rel(expr, ctx, rr) && out.len() == number
            && (forall|i: int| 0 <= i < number ==> #[trigger] out[i] == DataEntry::Number((rr->Ok_0 >> ((number - 1 - i) as i64)) & 1)),
        _ => out =~= seq![d],
    }
}
spec fn eval_can_err(e: Expr, ctx: &EvalContext) -> bool {
    exists|rr: Result<i64, ExprError>| #[trigger] wit(rr) && rr is Err && eval_rel(e, ctx, rr)
}
spec fn entry_can_err(d: DataEntry, ctx: &EvalContext) -> bool {
    match d {
        DataEntry::Expr(e) => eval_can_err(e, ctx),
        DataEntry::Bits { number, expr } => eval_can_err(expr, ctx),
        _ => false,
    }
}
/// a row's entries evaluate left to right, in the same environment, to the concatenation of the results
spec fn entries_rel(data: Seq<DataEntry>, ctx: &EvalContext, out: Seq<DataEntry>) -> bool
    decreases data.len()
{
    if data.len() == 0 { out =~= Seq::<DataEntry>::empty() } else {
        exists|o1: Seq<DataEntry>, o2: Seq<DataEntry>| #[trigger] wits(o1, o2) && entries_rel(data.drop_last(), ctx, o1)
            && entry_rel(data.last(), ctx, o2) && out =~= o1 + o2
    }
}

// --- well-formed programs (established by the parser, C12): known functions with the right arity, bits width <= 64 ---

spec fn entry_wf(d: DataEntry) -> bool {
    match d {
        DataEntry::Expr(e) => expr_wf(e),
        DataEntry::Bits { number, expr } => number <= 64 && expr_wf(expr),
        _ => true,
    }
}
spec fn stmt_wf(s: Stmt) -> bool
    decreases s
{
    match s {
        Stmt::Let { name, expr } => expr_wf(expr),
        Stmt::DataRow { data, line } => forall|i: int| 0 <= i < data@.len() ==> entry_wf(#[trigger] data@[i]),
        Stmt::Loop { variable, max, inner } => expr_wf(max) && forall|i: int| 0 <= i < inner@.len() ==> stmt_wf(#[trigger] inner@[i]),
        Stmt::While { condition, inner } => expr_wf(condition) && forall|i: int| 0 <= i < inner@.len() ==> stmt_wf(#[trigger] inner@[i]),
        Stmt::ResetRandom => true,
    }
}
spec fn stmts_wf(ss: Seq<Stmt>) -> bool { forall|i: int| 0 <= i < ss.len() ==> stmt_wf(#[trigger] ss[i]) }
spec fn frame_wf(f: Frame) -> bool {
    match f {
        Frame::Block(ss) => stmts_wf(ss),
        Frame::LoopEntry { var, bound, body } => stmts_wf(body),
        Frame::Loop { var, bound, body, counter } => stmts_wf(body) && 0 <= counter < bound,
        Frame::While { cond, body } => expr_wf(cond) && stmts_wf(body),
    }
}
spec fn k_wf(k: Seq<Frame>) -> bool { forall|i: int| 0 <= i < k.len() ==> frame_wf(#[trigger] k[i]) }

// --- the step relation ---

spec fn step(c1: Config, c2: Config, l: Label) -> bool {
    c1.k.len() > 0 && match c1.k[0] {
        Frame::Block(ss) => if ss.len() == 0 {
            // end of a block: control returns to the construct that owns it
            c1.k.len() >= 2 && l is Silent && match c1.k[1] {
                // the body ran for `counter`: run it again for counter+1 while that is below the bound ...
                Frame::Loop { var, bound, body, counter } => if counter + 1 < bound {
                    c2.k =~= seq![Frame::Block(body), Frame::Loop { var, bound, body, counter: (counter + 1) as i64 }] + c1.k.skip(2)
                        && is_bind(c1.ctx, var, (counter + 1) as i64, c2.ctx)
                } else {
                    // ... otherwise the loop ends and its scope (counter included) disappears
                    c2.k =~= c1.k.skip(2) && is_pop(c1.ctx, c2.ctx)
                },
                // the while frame is on top again and will be re-tested
                Frame::While { cond, body } => c2.k =~= c1.k.skip(1) && c2.ctx == c1.ctx,
                _ => false,
            }
        } else {
            let rest = c1.k.update(0, Frame::Block(ss.skip(1)));
            match ss[0] {
                Stmt::Let { name, expr } => l is Silent && c2.k =~= rest
                    && exists|rr: Result<i64, ExprError>| #[trigger] wit(rr) && rr is Ok && eval_rel(expr, &c1.ctx, rr) && is_bind(c1.ctx, name@, rr->Ok_0, c2.ctx),
                // a data row is emitted with its entries evaluated in the environment of this moment
                Stmt::DataRow { data, line } => c2.k =~= rest && c2.ctx == c1.ctx
                    && (l matches Label::Emit(r) && r.line == line && r.update_output && entries_rel(data@, &c1.ctx, r.entries)),
                // the bound is evaluated once, on entry
                Stmt::Loop { variable, max, inner } => l is Silent && c2.ctx == c1.ctx
                    && exists|rr: Result<i64, ExprError>| #[trigger] wit(rr) && rr is Ok && eval_rel(max, &c1.ctx, rr)
                        && c2.k =~= seq![Frame::LoopEntry { var: variable@, bound: rr->Ok_0, body: inner@ }] + rest,
                Stmt::While { condition, inner } => l is Silent && c2.ctx == c1.ctx
                    && c2.k =~= seq![Frame::While { cond: condition, body: inner@ }] + rest,
                Stmt::ResetRandom => l is Silent && c2.k =~= rest && is_reset(c1.ctx, c2.ctx),
            }
        },
        // not at all when the bound is <= 0; otherwise a new scope holding the counter, starting at 0
        Frame::LoopEntry { var, bound, body } => l is Silent && if bound <= 0 {
            c2.k =~= c1.k.skip(1) && c2.ctx == c1.ctx
        } else {
            c2.k =~= seq![Frame::Block(body), Frame::Loop { var, bound, body, counter: 0 }] + c1.k.skip(1)
                && exists|cm: EvalContext| #[trigger] cm.wf() && is_push(c1.ctx, cm) && is_bind(cm, var, 0, c2.ctx)
        },
        // the body runs for as long as the condition evaluates non-zero; while opens no scope
        Frame::While { cond, body } => l is Silent && c2.ctx == c1.ctx
            && exists|rr: Result<i64, ExprError>| #[trigger] wit(rr) && rr is Ok && eval_rel(cond, &c1.ctx, rr)
                && (if rr->Ok_0 != 0 { c2.k =~= seq![Frame::Block(body)] + c1.k } else { c2.k =~= c1.k.skip(1) }),
        Frame::Loop { var, bound, body, counter } => false,
    }
}

/// the next step of c needs an evaluation that can fail
spec fn can_err(c: Config) -> bool {
    c.k.len() > 0 && match c.k[0] {
        Frame::Block(ss) => ss.len() > 0 && match ss[0] {
            Stmt::Let { name, expr } => eval_can_err(expr, &c.ctx),
            Stmt::DataRow { data, line } => exists|i: int| 0 <= i < data@.len() && entry_can_err(#[trigger] data@[i], &c.ctx),
            Stmt::Loop { variable, max, inner } => eval_can_err(max, &c.ctx),
            _ => false,
        },
        Frame::While { cond, body } => eval_can_err(cond, &c.ctx),
        _ => false,
    }
}

/// n silent steps lead from c1 to c2
spec fn reach(c1: Config, c2: Config, n: nat) -> bool
    decreases n
{
    if n == 0 { c1 == c2 } else {
        exists|cm: Config| #[trigger] witc(cm) && step(c1, cm, Label::Silent) && reach(cm, c2, (n - 1) as nat)
    }
}

proof fn lemma_reach_snoc(c1: Config, c2: Config, c3: Config, n: nat)
    requires reach(c1, c2, n), step(c2, c3, Label::Silent)
    ensures reach(c1, c3, n + 1)
    decreases n
{
    if n == 0 {
        assert(witc(c3));
        assert(reach(c3, c3, 0));
        assert(reach(c1, c3, 1)) by { reveal_with_fuel(reach, 2); assert(witc(c3) && step(c1, c3, Label::Silent) && reach(c3, c3, 0)); }
    } else {
        let cm = choose|cm: Config| #[trigger] witc(cm) && step(c1, cm, Label::Silent) && reach(cm, c2, (n - 1) as nat);
        lemma_reach_snoc(cm, c2, c3, (n - 1) as nat);
        assert(witc(cm) && step(c1, cm, Label::Silent) && reach(cm, c3, n));
    }
}

proof fn lemma_reach_trans(c1: Config, c2: Config, c3: Config, n: nat, m: nat)
    requires reach(c1, c2, n), reach(c2, c3, m)
    ensures reach(c1, c3, n + m)
    decreases n
{
    if n == 0 { } else {
        let cm = choose|cm: Config| #[trigger] witc(cm) && step(c1, cm, Label::Silent) && reach(cm, c2, (n - 1) as nat);
        lemma_reach_trans(cm, c2, c3, (n - 1) as nat, m);
        assert(witc(cm) && step(c1, cm, Label::Silent) && reach(cm, c3, (n - 1 + m) as nat));
    }
}

spec fn lift(c: Config, suffix: Seq<Frame>) -> Config { Config { k: c.k + suffix, ctx: c.ctx } }

/// a step of a nested continuation is a step of the whole: frames below are not looked at
proof fn lemma_step_lift(c1: Config, c2: Config, l: Label, suffix: Seq<Frame>)
    requires step(c1, c2, l)
    ensures step(lift(c1, suffix), lift(c2, suffix), l)
{
    let d1 = lift(c1, suffix); let d2 = lift(c2, suffix);
    assert(d1.k[0] == c1.k[0]);
    match c1.k[0] {
        Frame::Block(ss) => {
            if ss.len() == 0 {
                assert(d1.k[1] == c1.k[1]);
                assert(d1.k.skip(2) =~= c1.k.skip(2) + suffix);
                assert(d1.k.skip(1) =~= c1.k.skip(1) + suffix);
                match c1.k[1] {
                    Frame::Loop { var, bound, body, counter } => {
                        if counter + 1 < bound {
                            assert(d2.k =~= seq![Frame::Block(body), Frame::Loop { var, bound, body, counter: (counter + 1) as i64 }] + d1.k.skip(2));
                        } else {
                            assert(d2.k =~= d1.k.skip(2));
                        }
                    }
                    Frame::While { cond, body } => { assert(d2.k =~= d1.k.skip(1)); }
                    _ => {}
                }
            } else {
                let rest = c1.k.update(0, Frame::Block(ss.skip(1)));
                let drest = d1.k.update(0, Frame::Block(ss.skip(1)));
                assert(drest =~= rest + suffix);
                match ss[0] {
                    Stmt::Let { name, expr } => { assert(d2.k =~= drest); }
                    Stmt::DataRow { data, line } => { assert(d2.k =~= drest); }
                    Stmt::Loop { variable, max, inner } => {
                        let rr = choose|rr: Result<i64, ExprError>| #[trigger] wit(rr) && rr is Ok && eval_rel(max, &c1.ctx, rr)
                            && c2.k == seq![Frame::LoopEntry { var: variable@, bound: rr->Ok_0, body: inner@ }] + rest;
                        assert(d2.k =~= seq![Frame::LoopEntry { var: variable@, bound: rr->Ok_0, body: inner@ }] + drest);
                        assert(wit(rr));
                    }
                    Stmt::While { condition, inner } => { assert(d2.k =~= seq![Frame::While { cond: condition, body: inner@ }] + drest); }
                    Stmt::ResetRandom => { assert(d2.k =~= drest); }
                }
            }
        }
        Frame::LoopEntry { var, bound, body } => {
            assert(d1.k.skip(1) =~= c1.k.skip(1) + suffix);
            if bound <= 0 { assert(d2.k =~= d1.k.skip(1)); } else {
                assert(d2.k =~= seq![Frame::Block(body), Frame::Loop { var, bound, body, counter: 0 }] + d1.k.skip(1));
                let cm = choose|cm: EvalContext| #[trigger] cm.wf() && is_push(c1.ctx, cm) && is_bind(cm, var, 0, c2.ctx);
                assert(cm.wf() && is_push(d1.ctx, cm) && is_bind(cm, var, 0, d2.ctx));
            }
        }
        Frame::While { cond, body } => {
            assert(d1.k.skip(1) =~= c1.k.skip(1) + suffix);
            let rr = choose|rr: Result<i64, ExprError>| #[trigger] wit(rr) && rr is Ok && eval_rel(cond, &c1.ctx, rr)
                && (if rr->Ok_0 != 0 { c2.k == seq![Frame::Block(body)] + c1.k } else { c2.k == c1.k.skip(1) });
            assert(wit(rr));
            if rr->Ok_0 != 0 { assert(d2.k =~= seq![Frame::Block(body)] + d1.k); } else { assert(d2.k =~= d1.k.skip(1)); }
        }
        Frame::Loop { var, bound, body, counter } => {}
    }
}

proof fn lemma_reach_lift(c1: Config, c2: Config, n: nat, suffix: Seq<Frame>)
    requires reach(c1, c2, n)
    ensures reach(lift(c1, suffix), lift(c2, suffix), n)
    decreases n
{
    if n > 0 {
        let cm = choose|cm: Config| #[trigger] witc(cm) && step(c1, cm, Label::Silent) && reach(cm, c2, (n - 1) as nat);
        lemma_step_lift(c1, cm, Label::Silent, suffix);
        lemma_reach_lift(cm, c2, (n - 1) as nat, suffix);
        assert(witc(lift(cm, suffix)));
    }
}

proof fn lemma_can_err_lift(c: Config, suffix: Seq<Frame>)
    requires can_err(c)
    ensures can_err(lift(c, suffix))
{
    assert(lift(c, suffix).k[0] == c.k[0]);
}

// --- abstraction: the continuation a StmtIterator stands for ---

spec fn derefs(s: Seq<&Stmt>) -> Seq<Stmt> { s.map_values(|x: &Stmt| *x) }

impl<'a> StmtIterator<'a> {
    /// statements of this iterator's own block that are still to run
    #[verifier::prophetic]
    spec fn rest(self) -> Seq<Stmt> { derefs(self.stmt_iter.remaining()) }

    #[verifier::prophetic]
    spec fn abs_k(self) -> Seq<Frame>
        decreases self
    {
        let tail = seq![Frame::Block(self.rest())];
        match self.inner_state {
            StmtIteratorState::Iterate => tail,
            StmtIteratorState::StartLoop(ls) => seq![Frame::LoopEntry { var: ls.variable@, bound: ls.max, body: ls.stmts@ }] + tail,
            StmtIteratorState::StartIterateInner(ls) =>
                seq![Frame::Block(ls.stmts@), Frame::Loop { var: ls.variable@, bound: ls.max, body: ls.stmts@, counter: ls.value }] + tail,
            StmtIteratorState::IterateInner { inner_iterator, loop_state } =>
                (*inner_iterator).abs_k() + (seq![Frame::Loop { var: loop_state.variable@, bound: loop_state.max, body: loop_state.stmts@, counter: loop_state.value }] + tail),
            StmtIteratorState::EndIterateInner(ls) =>
                seq![Frame::Block(Seq::empty()), Frame::Loop { var: ls.variable@, bound: ls.max, body: ls.stmts@, counter: ls.value }] + tail,
            StmtIteratorState::StartWhile(ws) => seq![Frame::While { cond: *ws.condition, body: ws.stmts@ }] + tail,
            StmtIteratorState::WhileIterateInner { inner_iterator, while_state } =>
                (*inner_iterator).abs_k() + (seq![Frame::While { cond: *while_state.condition, body: while_state.stmts@ }] + tail),
        }
    }

    /// structural invariant: the slice iterators involved behave as vstd specifies for slice::Iter, and a loop
    /// that has not been entered yet has its counter at 0
    #[verifier::prophetic]
    spec fn iters_ok(self) -> bool
        decreases self
    {
        self.stmt_iter.obeys_prophetic_iter_laws() && match self.inner_state {
            StmtIteratorState::IterateInner { inner_iterator, loop_state } => (*inner_iterator).iters_ok(),
            StmtIteratorState::WhileIterateInner { inner_iterator, while_state } => (*inner_iterator).iters_ok(),
            // a loop that has not started yet has counter 0
            StmtIteratorState::StartLoop(ls) => ls.value == 0,
            _ => true,
        }
    }

    #[verifier::prophetic]
    spec fn wf_iter(self) -> bool { self.iters_ok() && k_wf(self.abs_k()) }
}

#[verifier::prophetic]
spec fn abs<'a>(it: StmtIterator<'a>, ctx: EvalContext) -> Config { Config { k: it.abs_k(), ctx } }

// --- outcomes of running a configuration up to the next observable event ---

/// silent steps lead from c to a configuration whose next step emits `row` and leaves c2
spec fn emits(c: Config, c2: Config, row: RowS) -> bool {
    exists|n: nat, cm: Config| #[trigger] witn(n, cm) && reach(c, cm, n) && step(cm, c2, Label::Emit(row))
}
/// silent steps lead from c to c2
spec fn silent_to(c: Config, c2: Config) -> bool {
    exists|n: nat| #[trigger] witnn(n) && reach(c, c2, n)
}
/// silent steps lead from c to a configuration whose next step needs an evaluation that can fail
spec fn err_reachable(c: Config) -> bool {
    exists|n: nat, cm: Config| #[trigger] witn(n, cm) && reach(c, cm, n) && can_err(cm)
}

proof fn lemma_silent_refl(c: Config)
    ensures silent_to(c, c)
{
    assert(witnn(0) && reach(c, c, 0));
}

proof fn lemma_silent_snoc(c0: Config, c: Config, c2: Config)
    requires silent_to(c0, c), step(c, c2, Label::Silent)
    ensures silent_to(c0, c2)
{
    let n = choose|n: nat| #[trigger] witnn(n) && reach(c0, c, n);
    lemma_reach_snoc(c0, c, c2, n);
    assert(witnn(n + 1));
}

proof fn lemma_err_intro(c0: Config, c: Config)
    requires silent_to(c0, c)
    ensures can_err(c) ==> err_reachable(c0)
{
    let n = choose|n: nat| #[trigger] witnn(n) && reach(c0, c, n);
    assert(witn(n, c));
}

proof fn lemma_err_compose(c0: Config, c: Config, inner: Config, suffix: Seq<Frame>)
    requires silent_to(c0, c), c == lift(inner, suffix)
    ensures err_reachable(inner) ==> err_reachable(c0)
{
    if err_reachable(inner) {
        let n = choose|n: nat| #[trigger] witnn(n) && reach(c0, c, n);
        let (n1, cm) = choose|n1: nat, cm: Config| #[trigger] witn(n1, cm) && reach(inner, cm, n1) && can_err(cm);
        lemma_reach_lift(inner, cm, n1, suffix);
        lemma_can_err_lift(cm, suffix);
        lemma_reach_trans(c0, c, lift(cm, suffix), n, n1);
        assert(witn(n + n1, lift(cm, suffix)));
    }
}

proof fn lemma_emits_intro(c0: Config, c: Config, c2: Config, row: RowS)
    requires silent_to(c0, c), step(c, c2, Label::Emit(row))
    ensures emits(c0, c2, row)
{
    let n = choose|n: nat| #[trigger] witnn(n) && reach(c0, c, n);
    assert(witn(n, c));
}

proof fn lemma_emits_compose(c0: Config, c: Config, inner: Config, inner2: Config, suffix: Seq<Frame>, row: RowS)
    requires silent_to(c0, c), c == lift(inner, suffix), emits(inner, inner2, row)
    ensures emits(c0, lift(inner2, suffix), row)
{
    let n = choose|n: nat| #[trigger] witnn(n) && reach(c0, c, n);
    let (n1, cm) = choose|n1: nat, cm: Config| #[trigger] witn(n1, cm) && reach(inner, cm, n1) && step(cm, inner2, Label::Emit(row));
    lemma_reach_lift(inner, cm, n1, suffix);
    lemma_step_lift(cm, inner2, Label::Emit(row), suffix);
    lemma_reach_trans(c0, c, lift(cm, suffix), n, n1);
    assert(witn(n + n1, lift(cm, suffix)));
}

proof fn lemma_silent_compose(c0: Config, c: Config, inner: Config, inner2: Config, suffix: Seq<Frame>)
    requires silent_to(c0, c), c == lift(inner, suffix), silent_to(inner, inner2)
    ensures silent_to(c0, lift(inner2, suffix))
{
    let n = choose|n: nat| #[trigger] witnn(n) && reach(c0, c, n);
    let n1 = choose|n1: nat| #[trigger] witnn(n1) && reach(inner, inner2, n1);
    lemma_reach_lift(inner, inner2, n1, suffix);
    lemma_reach_trans(c0, c, lift(inner2, suffix), n, n1);
    assert(witnn(n + n1));
}

// ---- what an error item leaves behind (C10: the caller may go on calling next()) ----
// No property statement says where execution resumes after an error item, so the relation below is deliberately wide:
// the continuation is the one that was reached, with any number of statements dropped from the head of its first block
// (the code today drops exactly the failing statement, and none for a failing `while` condition). It is only as strong
// as the invariants (well-formedness, row shape) need.

/// c2 is cm with j statements dropped from the head of its first block
spec fn drop_head(cm: Config, c2: Config) -> bool {
    c2.ctx == cm.ctx && (c2.k == cm.k
        || (cm.k.len() > 0 && (cm.k[0] matches Frame::Block(ss) && (exists|j: int| 0 <= j <= ss.len() && #[trigger] wj(j) && c2.k == cm.k.update(0, Frame::Block(ss.skip(j)))))))
}
spec fn wj(j: int) -> bool { true }
/// silent steps lead from c to a configuration from whose first block statements are then dropped, leaving c2
spec fn fails(c: Config, c2: Config) -> bool {
    exists|n: nat, cm: Config| #[trigger] witn(n, cm) && reach(c, cm, n) && drop_head(cm, c2)
}
proof fn lemma_fails_intro(c0: Config, c: Config, c2: Config)
    requires silent_to(c0, c), drop_head(c, c2)
    ensures fails(c0, c2)
{
    let n = choose|n: nat| #[trigger] witnn(n) && reach(c0, c, n);
    assert(witn(n, c));
}
proof fn lemma_drop_head_lift(cm: Config, c2: Config, suffix: Seq<Frame>)
    requires drop_head(cm, c2)
    ensures drop_head(lift(cm, suffix), lift(c2, suffix))
{
    if c2.k != cm.k {
        let ss = cm.k[0]->Block_0;
        let j = choose|j: int| 0 <= j <= ss.len() && #[trigger] wj(j) && c2.k == cm.k.update(0, Frame::Block(ss.skip(j)));
        assert((cm.k + suffix)[0] == cm.k[0]);
        assert(wj(j) && c2.k + suffix =~= (cm.k + suffix).update(0, Frame::Block(ss.skip(j))));
    }
}
proof fn lemma_fails_compose(c0: Config, c: Config, inner: Config, inner2: Config, suffix: Seq<Frame>)
    requires silent_to(c0, c), c == lift(inner, suffix), fails(inner, inner2)
    ensures fails(c0, lift(inner2, suffix))
{
    let n = choose|n: nat| #[trigger] witnn(n) && reach(c0, c, n);
    let (n1, cm) = choose|n1: nat, cm: Config| #[trigger] witn(n1, cm) && reach(inner, cm, n1) && drop_head(cm, inner2);
    lemma_reach_lift(inner, cm, n1, suffix);
    lemma_drop_head_lift(cm, inner2, suffix);
    lemma_reach_trans(c0, c, lift(cm, suffix), n, n1);
    assert(witn(n + n1, lift(cm, suffix)));
}
