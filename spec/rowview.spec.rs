// ---- abstract view of evaluated rows ----

/// abstract row: evaluated entries, source line, whether outputs are read and compared
ghost struct RowS { entries: Seq<DataEntry>, line: usize, update_output: bool }

spec fn row_view(d: DataEntries) -> RowS { RowS { entries: d.entries@, line: d.line, update_output: d.update_output } }

// [A-derive] #[derive(Clone)] on DataEntries / DataEntry copies every field
#[verifier::external_body]
proof fn axiom_data_entries_clone()
    ensures forall|a: DataEntries, b: DataEntries| call_ensures(DataEntries::clone, (&a,), b) ==> row_view(b) == row_view(a),
{
}
impl Clone for DataEntries {
    #[verifier::external_body]
    fn clone(&self) -> (r: Self) { unimplemented!() }
}

