// ---- spec vocabulary for values and verdicts (written from the statement of C03) ----

// [A-std] std's `impl<T> From<T> for T` is the identity conversion (and hence so is the blanket Into).
#[verifier::external_body]
proof fn axiom_reflexive_into_output_value(o: OutputValue)
    ensures
        <OutputValue as IntoSpec<OutputValue>>::obeys_into_spec(),
        IntoSpec::<OutputValue>::into_spec(o) == o,
{
}

spec fn obeys_into<T: Into<U>, U>(t: T) -> bool {
    <T as IntoSpec<U>>::obeys_into_spec()
}

/// C03: an entry passes iff expected is X, or is Z and the output is Z, or both are numbers and equal
spec fn check_spec(e: ExpectedValue, o: OutputValue) -> bool {
    e is X || (e is Z && o is Z) || (e is Value && o is Value && e->Value_0 == o->Value_0)
}
