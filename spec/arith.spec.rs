// ---- C08: 64-bit two's-complement arithmetic, written from the statement ----

pub open spec fn wrap64(x: int) -> i64 {
    let m = x % 0x1_0000_0000_0000_0000;
    if m >= 0x8000_0000_0000_0000 { (m - 0x1_0000_0000_0000_0000) as i64 } else { m as i64 }
}

spec fn pow2(n: nat) -> int decreases n { if n == 0 { 1 } else { 2 * pow2((n - 1) as nat) } }

/// shift count: "shifts use the low six bits of the count"
spec fn shcount(r: i64) -> nat { (r & 63) as nat }

/// truncating division / remainder on mathematical integers (r != 0)
pub open spec fn tdiv(l: int, r: int) -> int {
    if (l >= 0 && r > 0) { l / r } else if (l < 0 && r < 0) { (-l) / (-r) } else if l < 0 { -((-l) / r) } else { -(l / (-r)) }
}
pub open spec fn trem(l: int, r: int) -> int { l - r * tdiv(l, r) }

/// None: the operation cannot be evaluated (division or remainder by zero) -> must surface as an error item (C10)
spec fn binop_spec(op: BinOp, l: i64, r: i64) -> Option<i64> {
    match op {
        BinOp::Equal => Some(if l == r { 1i64 } else { 0i64 }),
        BinOp::NotEqual => Some(if l != r { 1i64 } else { 0i64 }),
        BinOp::GreaterThan => Some(if l > r { 1i64 } else { 0i64 }),
        BinOp::LessThan => Some(if l < r { 1i64 } else { 0i64 }),
        BinOp::GreaterThanOrEqual => Some(if l >= r { 1i64 } else { 0i64 }),
        BinOp::LessThanOrEqual => Some(if l <= r { 1i64 } else { 0i64 }),
        BinOp::Or => Some(l | r),
        BinOp::Xor => Some(l ^ r),
        BinOp::And => Some(l & r),
        // "shifts use the low six bits of the count with >> arithmetic": Verus' `<<` on i64 drops the bits shifted
        // out (two's-complement wrap), its `>>` on i64 is the arithmetic (sign-propagating) shift
        BinOp::ShiftLeft => Some(l << (r & 63)),
        BinOp::ShiftRight => Some(l >> (r & 63)),
        BinOp::Plus => Some(wrap64(l + r)),
        BinOp::Minus => Some(wrap64(l - r)),
        BinOp::Times => Some(wrap64(l * r)),
        BinOp::Divide => if r == 0 { None } else { Some(wrap64(tdiv(l as int, r as int))) },
        BinOp::Reminder => if r == 0 { None } else { Some(wrap64(trem(l as int, r as int))) },
    }
}

spec fn unop_spec(op: UnaryOp, v: i64) -> i64 {
    match op {
        UnaryOp::Minus => wrap64(-(v as int)),
        UnaryOp::LogicalNot => if v == 0 { 1i64 } else { 0i64 },
        UnaryOp::BinaryNot => !v,
    }
}

// [A-std] i64::wrapping_neg / wrapping_div / wrapping_rem (no vstd specification): two's-complement negation, and
// truncating division / remainder whose only overflow case (MIN / -1) wraps. Cross-checked by the Kani twins.
pub assume_specification[ i64::wrapping_neg ](x: i64) -> (r: i64)
    ensures r == wrap64(-(x as int));
pub assume_specification[ i64::wrapping_div ](x: i64, y: i64) -> (r: i64)
    requires y != 0,
    ensures r == wrap64(tdiv(x as int, y as int));
pub assume_specification[ i64::wrapping_rem ](x: i64, y: i64) -> (r: i64)
    requires y != 0,
    ensures r == wrap64(trem(x as int, y as int));
