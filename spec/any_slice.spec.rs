// N7 [A-std]: `xs.iter().any(f)` on a slice: some element is accepted by f
#[verifier::external_body]
fn verif_any_slice<T, F: FnMut(&T) -> bool>(xs: &[T], f: F) -> (r: bool)
    requires forall|i: int| 0 <= i < xs@.len() ==> call_requires(f, (&xs@[i],)),
    ensures r <==> exists|i: int| 0 <= i < xs@.len() && call_ensures(f, (&#[trigger] xs@[i],), true),
        !r ==> forall|i: int| 0 <= i < xs@.len() ==> call_ensures(f, (&#[trigger] xs@[i],), false),
{
    xs.iter().any(f)
}
