// ---- rows: binding of columns to signals, width reduction, complete vectors (C06, C07) ----

/// C07: the program's 64-bit value reduced modulo 2^bits (two's-complement truncation: the value is read as its
/// unsigned 64-bit pattern); a 64-bit signal keeps the value unchanged
spec fn trunc_spec(n: i64, bits: usize) -> i64 {
    if bits >= 64 { n } else { ((n as u64) % (1u64 << (bits as u64))) as i64 }
}

proof fn lemma_mask(bits: usize, r: i64)
    requires bits < 64 ==> r == (1i64 << bits).wrapping_sub(1), bits >= 64 ==> r == -1i64
    ensures forall|n: i64| #[trigger] (n & r) == trunc_spec(n, bits)
{
    if bits < 64 {
        let b = bits as u64;
        let x = 1i64 << b;
        assert(b < 63 ==> (1i64 << b) >= 1i64) by (bit_vector);
        assert(b == 63 ==> (1i64 << b) == -0x8000_0000_0000_0000i64) by (bit_vector);
        assert forall|n: i64| #[trigger] (n & r) == trunc_spec(n, bits) by {
            if b < 63 {
                assert(r == x - 1);
                assert(b < 63 && x == (1i64 << b) && r == x - 1 ==> (n & r) == ((n as u64) % (1u64 << b)) as i64) by (bit_vector);
            } else {
                assert(r == 0x7fff_ffff_ffff_ffffi64);
                assert(b == 63 ==> (n & 0x7fff_ffff_ffff_ffffi64) == ((n as u64) % (1u64 << b)) as i64) by (bit_vector);
            }
        }
    } else {
        assert forall|n: i64| #[trigger] (n & r) == trunc_spec(n, bits) by { assert(n & -1i64 == n) by (bit_vector); }
    }
}

spec fn sig_is_input(s: Signal) -> bool { s.typ is Input || s.typ is Bidirectional }
spec fn sig_is_output(s: Signal) -> bool { s.typ is Output || s.typ is Bidirectional }
spec fn sig_default(s: Signal) -> Option<InputValue> {
    match s.typ {
        SignalType::Input { default } => Some(default),
        SignalType::Bidirectional { default } => Some(default),
        _ => None,
    }
}

spec fn index_signal(ix: EntryIndex) -> usize {
    match ix { EntryIndex::Entry { entry_index, signal_index } => signal_index, EntryIndex::Default { signal_index } => signal_index }
}

/// well-formed index lists for rows of `width` columns (established by with_signals, C11):
/// indices in range, input indices point at input-capable signals of width <= 64, expected
/// indices at signals of width <= 64
spec fn wf_indices_of(signals: Seq<Signal>, inp: Seq<EntryIndex>, exp: Seq<EntryIndex>, width: int) -> bool {
    &&& forall|k: int| 0 <= k < inp.len() ==> match #[trigger] inp[k] {
            EntryIndex::Entry { entry_index, signal_index } => entry_index < width && signal_index < signals.len()
                && sig_is_input(signals[signal_index as int]) && signals[signal_index as int].bits <= 64,
            EntryIndex::Default { signal_index } => signal_index < signals.len() && sig_is_input(signals[signal_index as int]),
        }
    &&& forall|k: int| 0 <= k < exp.len() ==> match #[trigger] exp[k] {
            EntryIndex::Entry { entry_index, signal_index } => entry_index < width && signal_index < signals.len()
                && signals[signal_index as int].bits <= 64,
            EntryIndex::Default { signal_index } => signal_index < signals.len(),
        }
}

/// the column bindings of a test: which header columns feed inputs / carry expectations
ghost struct Cols { inp: Seq<EntryIndex>, exp: Seq<EntryIndex> }

impl Cols {
    /// column c is bound to some input-capable signal
    spec fn col_is_input(&self, c: int) -> bool {
        exists|k: int| 0 <= k < self.inp.len() && ((#[trigger] self.inp[k]) matches EntryIndex::Entry { entry_index, signal_index } && entry_index == c)
    }
    /// column c is bound to some output-capable or virtual signal's expectation
    spec fn col_is_expected(&self, c: int) -> bool {
        exists|k: int| 0 <= k < self.exp.len() && ((#[trigger] self.exp[k]) matches EntryIndex::Entry { entry_index, signal_index } && entry_index == c)
    }
}

impl<'a> DataRowIteratorTestData<'a> {
    spec fn wf_indices(&self, width: int) -> bool { wf_indices_of(self.signals@, self.input_indices@, self.expected_indices@, width) }

    spec fn cols(&self) -> Cols { Cols { inp: self.input_indices@, exp: self.expected_indices@ } }
    /// column c is bound to some input-capable signal
    spec fn col_is_input(&self, c: int) -> bool { self.cols().col_is_input(c) }

    /// C06/C07: the input entry for the k-th input index, given the evaluated row and its changed flags
    spec fn input_entry_spec(&self, k: int, entries: Seq<DataEntry>, changed: Seq<bool>) -> InputEntry<'a> {
        match self.input_indices@[k] {
            EntryIndex::Entry { entry_index, signal_index } => InputEntry {
                signal: &self.signals@[signal_index as int],
                value: match entries[entry_index as int] {
                    DataEntry::Number(n) => InputValue::Value(trunc_spec(n, self.signals@[signal_index as int].bits)),
                    _ => InputValue::Z,
                },
                changed: changed[entry_index as int],
            },
            EntryIndex::Default { signal_index } => InputEntry {
                signal: &self.signals@[signal_index as int],
                value: sig_default(self.signals@[signal_index as int]).unwrap(),
                changed: false,
            },
        }
    }

    spec fn expected_entry_spec(&self, k: int, entries: Seq<DataEntry>) -> ExpectedEntry<'a> {
        match self.expected_indices@[k] {
            EntryIndex::Entry { entry_index, signal_index } => ExpectedEntry {
                signal: &self.signals@[signal_index as int],
                value: match entries[entry_index as int] {
                    DataEntry::Number(n) => ExpectedValue::Value(trunc_spec(n, self.signals@[signal_index as int].bits)),
                    DataEntry::Z => ExpectedValue::Z,
                    _ => ExpectedValue::X,
                },
            },
            EntryIndex::Default { signal_index } => ExpectedEntry {
                signal: &self.signals@[signal_index as int],
                value: ExpectedValue::X,
            },
        }
    }
}
