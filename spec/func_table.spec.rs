// ---- the function table ----
// Verus does not support function-pointer types, so the `f` field, the FUNC_TABLE constant and the
// indirect call are outside its reach. N10/N11: the field type is replaced by an opaque stand-in,
// `FUNC_TABLE.get(n)` is emitted as `verif_func_table_get(n)` and `(entry.f)(ctx, args)` as
// `verif_call_func(entry, ctx, args)`; both are trusted and their contracts state the table's contents.

#[verifier::external_body]
struct VerifFuncPtr { _opaque: () }

//@item src/expr.rs | struct FuncTableEntry | subst "fn(&EvalContext, &[Expr]) -> Result<i64, ExprError>" => "VerifFuncPtr" #N10
//@item src/expr.rs | struct FuncTable

// [A-table] FUNC_TABLE = { random/1, ite/3, signExt/2 } (checked against the real constant by the Kani table harness)
#[verifier::external_body]
fn verif_func_table_get(name: &str) -> (r: Option<&'static FuncTableEntry>)
    ensures
        match r {
            Some(e) => e.name@ == name@ && func_table_spec(name@) == Some(e.number_of_args),
            None => func_table_spec(name@) is None,
        },
{
    unimplemented!()
}

// [A-table] calling the entry named n runs func_random / func_ite / func_sign_ext respectively
#[verifier::external_body]
fn verif_call_func(entry: &FuncTableEntry, ctx: &EvalContext, args: &[Expr]) -> (r: Result<i64, ExprError>)
    requires
        func_table_spec(entry.name@) == Some(args@.len() as usize),
        forall|i: int| 0 <= i < args@.len() ==> expr_wf(#[trigger] args@[i]),
    ensures
        func_post(entry.name@, args@, ctx, r),
{
    unimplemented!()
}
