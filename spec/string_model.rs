// [A-std] Strings are identified with their character sequences (equal contents <=> equal values), String obeys
// the hash-table key model, the std comparison impls between String / &String / str / &str compare contents,
// `<&str as Into<String>>` and `Borrow<str>` preserve contents, and looking a HashMap<String,_> up by &str finds the key with that content.
#[verifier::external_body]
proof fn axiom_string_model()
    ensures
        forall|s1: String, s2: String| #![trigger s1@, s2@] s1@ == s2@ ==> s1 == s2,
        vstd::std_specs::hash::obeys_key_model::<String>(),
        <String as PartialEqSpec<String>>::obeys_eq_spec(),
        forall|a: String, b: String| #[trigger] <String as PartialEqSpec<String>>::eq_spec(&a, &b) == (a@ == b@),
        <&String as PartialEqSpec<&str>>::obeys_eq_spec(),
        forall|a: &String, b: &str| #[trigger] <&String as PartialEqSpec<&str>>::eq_spec(&a, &b) == (a@ == b@),
        <&String as PartialEqSpec<&String>>::obeys_eq_spec(),
        forall|a: &String, b: &String| #[trigger] <&String as PartialEqSpec<&String>>::eq_spec(&a, &b) == (a@ == b@),
        <String as PartialEqSpec<&str>>::obeys_eq_spec(),
        forall|a: String, b: &str| #[trigger] <String as PartialEqSpec<&str>>::eq_spec(&a, &b) == (a@ == b@),
        <str as PartialEqSpec<str>>::obeys_eq_spec(),
        forall|a: &str, b: &str| #[trigger] <str as PartialEqSpec<str>>::eq_spec(a, b) == (a@ == b@),
        <&str as PartialEqSpec<&str>>::obeys_eq_spec(),
        forall|a: &str, b: &str| #[trigger] <&str as PartialEqSpec<&str>>::eq_spec(&a, &b) == (a@ == b@),
        <&str as IntoSpec<String>>::obeys_into_spec(),
        forall|a: &str| (#[trigger] <&str as IntoSpec<String>>::into_spec(a))@ == a@,
        forall|m: Map<String, OutputValue>, k: &str| #[trigger] vstd::std_specs::hash::contains_borrowed_key(m, k) <==> (exists|key: String| key@ == k@ && m.contains_key(key)),
        forall|m: Map<String, OutputValue>, k: &str, v: OutputValue| #[trigger] vstd::std_specs::hash::maps_borrowed_key_to_value(m, k, v) <==> (exists|key: String| key@ == k@ && m.contains_key(key) && m[key] == v),
{
}

// [A-std] N9: `<String>.to_string()` is emitted as `verif_string_to_string(&<String>)`; it copies the contents. The body IS the original call.
#[verifier::external_body]
fn verif_string_to_string(s: &String) -> (r: String)
    ensures r@ == s@,
{
    s.to_string()
}
