// ---- C15: from the parser's record of output reads to closedness ----
// `ParsedTestCase::parse` is proved to record in `read_outputs` exactly the identifiers x with block_free(stmts, {}, x)
// (spec/scope.spec.rs; the parser counts a name bound by `let` inside a `while` body as a variable behind the loop).
// For a program in which no `while` body binds a name that is not already bound where the loop stands (`block_tame`), an empty
// record means the program is closed in the sense of spec/closed.spec.rs, which is the hypothesis of the non-interference
// lemmas. Programs outside `block_tame` are exactly those of finding F-while-scope.

/// no `while` body in t (reached with the names sc in scope) binds a name that is not in scope where the loop stands
spec fn stmt_tame(t: Stmt, sc: ISet<Seq<char>>) -> bool
    decreases t, 0int
{
    match t {
        Stmt::Loop { variable, max, inner } => block_tame(inner@, sc.insert(variable@)),
        Stmt::While { condition, inner } => block_tame(inner@, sc)
            && forall|x: Seq<char>| #[trigger] scope_after_block(inner@, sc, inner@.len() as int).contains(x) ==> sc.contains(x),
        _ => true,
    }
}
spec fn block_tame(ss: Seq<Stmt>, sc: ISet<Seq<char>>) -> bool
    decreases ss, 2int
{
    forall|i: int| #[trigger] wi(i) && 0 <= i < ss.len() ==> stmt_tame(ss[i], scope_after_block(ss, sc, i))
}

/// in a tame block the parser's scope after i statements holds nothing but the names in scope before and the block's own `let`s
proof fn lemma_tame_scope(ss: Seq<Stmt>, sc: ISet<Seq<char>>, i: int, x: Seq<char>)
    requires block_tame(ss, sc), 0 <= i <= ss.len(), scope_after_block(ss, sc, i).contains(x)
    ensures sc.contains(x) || ni_let_in(ss, i, x)
    decreases i
{
    reveal_with_fuel(scope_after_block, 2);
    reveal_with_fuel(scope_after, 2);
    if i > 0 {
        let sp = scope_after_block(ss, sc, i - 1);
        assert(wi(i - 1));
        assert(stmt_tame(ss[i - 1], sp));
        assert(scope_after_block(ss, sc, i) == scope_after(ss[i - 1], sp));
        match ss[i - 1] {
            Stmt::Let { name, expr } => {
                if name@ == x { assert(nw(i - 1)); } else {
                    lemma_tame_scope(ss, sc, i - 1, x);
                    if !sc.contains(x) {
                        let j = choose|j: int| #[trigger] nw(j) && 0 <= j < i - 1 && j < ss.len() && (ss[j] matches Stmt::Let { name, expr } && name@ == x);
                        assert(nw(j));
                    }
                }
            }
            Stmt::While { condition, inner } => {
                assert(scope_after(ss[i - 1], sp) == scope_after_block(inner@, sp, inner@.len() as int));
                assert(scope_after_block(inner@, sp, inner@.len() as int).contains(x));
                assert(sp.contains(x));
                lemma_tame_scope(ss, sc, i - 1, x);
                if !sc.contains(x) {
                    let j = choose|j: int| #[trigger] nw(j) && 0 <= j < i - 1 && j < ss.len() && (ss[j] matches Stmt::Let { name, expr } && name@ == x);
                    assert(nw(j));
                }
            }
            _ => {
                lemma_tame_scope(ss, sc, i - 1, x);
                if !sc.contains(x) {
                    let j = choose|j: int| #[trigger] nw(j) && 0 <= j < i - 1 && j < ss.len() && (ss[j] matches Stmt::Let { name, expr } && name@ == x);
                    assert(nw(j));
                }
            }
        }
    }
}

proof fn lemma_bridge_expr(e: Expr, sc: ISet<Seq<char>>, s: spec_fn(Seq<char>) -> bool)
    requires
        forall|x: Seq<char>| expr_reads(e, x) ==> #[trigger] sc.contains(x),
        forall|x: Seq<char>| #[trigger] sc.contains(x) ==> s(x),
    ensures expr_closed(e, s)
    decreases e
{
    match e {
        Expr::Number(_) => {}
        Expr::Variable(name) => { assert(expr_reads(e, name@)); assert(sc.contains(name@)); }
        Expr::UnaryOp { op, expr } => {
            assert forall|x: Seq<char>| expr_reads(*expr, x) implies #[trigger] sc.contains(x) by { assert(expr_reads(e, x)); }
            lemma_bridge_expr(*expr, sc, s);
        }
        Expr::BinOp { op, left, right } => {
            assert forall|x: Seq<char>| expr_reads(*left, x) implies #[trigger] sc.contains(x) by { assert(expr_reads(e, x)); }
            assert forall|x: Seq<char>| expr_reads(*right, x) implies #[trigger] sc.contains(x) by { assert(expr_reads(e, x)); }
            lemma_bridge_expr(*left, sc, s);
            lemma_bridge_expr(*right, sc, s);
        }
        Expr::Func { name, args } => {
            assert forall|i: int| 0 <= i < args@.len() implies expr_closed(#[trigger] args@[i], s) by {
                assert forall|x: Seq<char>| expr_reads(args@[i], x) implies #[trigger] sc.contains(x) by {
                    assert(wi(i));
                    assert(expr_reads(e, x));
                }
                lemma_bridge_expr(args@[i], sc, s);
            }
        }
    }
}

proof fn lemma_bridge_stmt(t: Stmt, sc: ISet<Seq<char>>, s: spec_fn(Seq<char>) -> bool)
    requires
        stmt_tame(t, sc),
        forall|x: Seq<char>| !stmt_free(t, sc, x),
        forall|x: Seq<char>| #[trigger] sc.contains(x) ==> s(x),
    ensures stmt_closed(t, s)
    decreases t
{
    match t {
        Stmt::Let { name, expr } => {
            assert forall|x: Seq<char>| expr_reads(expr, x) implies #[trigger] sc.contains(x) by { assert(!stmt_free(t, sc, x)); }
            lemma_bridge_expr(expr, sc, s);
        }
        Stmt::DataRow { data, line } => {
            assert forall|i: int| 0 <= i < data@.len() implies entry_closed(#[trigger] data@[i], s) by {
                match data@[i] {
                    DataEntry::Expr(e) => {
                        assert forall|x: Seq<char>| expr_reads(e, x) implies #[trigger] sc.contains(x) by {
                            assert(wi(i) && entry_reads(data@[i], x));
                            assert(row_reads(data@, x));
                            assert(!stmt_free(t, sc, x));
                        }
                        lemma_bridge_expr(e, sc, s);
                    }
                    DataEntry::Bits { number, expr } => {
                        assert forall|x: Seq<char>| expr_reads(expr, x) implies #[trigger] sc.contains(x) by {
                            assert(wi(i) && entry_reads(data@[i], x));
                            assert(row_reads(data@, x));
                            assert(!stmt_free(t, sc, x));
                        }
                        lemma_bridge_expr(expr, sc, s);
                    }
                    _ => {}
                }
            }
        }
        Stmt::Loop { variable, max, inner } => {
            assert forall|x: Seq<char>| expr_reads(max, x) implies #[trigger] sc.contains(x) by { assert(!stmt_free(t, sc, x)); }
            lemma_bridge_expr(max, sc, s);
            let sc1 = sc.insert(variable@);
            let s1 = ni_add(s, variable@);
            assert forall|x: Seq<char>| !block_free(inner@, sc1, x) by { assert(!stmt_free(t, sc, x)); }
            assert forall|x: Seq<char>| #[trigger] sc1.contains(x) implies s1(x) by {}
            lemma_bridge_block_inner(inner@, sc1, s1, t);
        }
        Stmt::While { condition, inner } => {
            assert forall|x: Seq<char>| expr_reads(condition, x) implies #[trigger] sc.contains(x) by { assert(!stmt_free(t, sc, x)); }
            lemma_bridge_expr(condition, sc, s);
            assert forall|x: Seq<char>| !block_free(inner@, sc, x) by { assert(!stmt_free(t, sc, x)); }
            lemma_bridge_block_inner(inner@, sc, s, t);
        }
        Stmt::ResetRandom => {}
    }
}
/// the statements of the block `ss` of statement `parent`
proof fn lemma_bridge_block_inner(ss: Seq<Stmt>, sc: ISet<Seq<char>>, s: spec_fn(Seq<char>) -> bool, parent: Stmt)
    requires
        block_tame(ss, sc),
        forall|x: Seq<char>| !block_free(ss, sc, x),
        forall|x: Seq<char>| #[trigger] sc.contains(x) ==> s(x),
        (parent matches Stmt::Loop { variable, max, inner } && inner@ == ss) || (parent matches Stmt::While { condition, inner } && inner@ == ss),
    ensures block_closed(ss, s)
    decreases parent, 0int
{
    assert forall|i: int| #[trigger] nw(i) && 0 <= i < ss.len() implies stmt_closed(ss[i], ni_ext(s, ss, i)) by {
        let sci = scope_after_block(ss, sc, i);
        let si = ni_ext(s, ss, i);
        assert(wi(i));
        assert forall|x: Seq<char>| !stmt_free(ss[i], sci, x) by { assert(!block_free(ss, sc, x)); }
        assert forall|x: Seq<char>| #[trigger] sci.contains(x) implies si(x) by { lemma_tame_scope(ss, sc, i, x); }
        lemma_bridge_stmt(ss[i], sci, si);
    }
}

/// C15: a tame program for which the parser recorded no output read is closed
proof fn theorem_closed_bridge(ss: Seq<Stmt>)
    requires block_tame(ss, ISet::empty()), forall|x: Seq<char>| !block_free(ss, ISet::empty(), x)
    ensures prog_closed(ss) // [C15.ni.bridge]
{
    let sc = ISet::<Seq<char>>::empty();
    let s = |x: Seq<char>| false;
    assert forall|i: int| #[trigger] nw(i) && 0 <= i < ss.len() implies stmt_closed(ss[i], ni_ext(s, ss, i)) by {
        let sci = scope_after_block(ss, sc, i);
        let si = ni_ext(s, ss, i);
        assert(wi(i));
        assert forall|x: Seq<char>| !stmt_free(ss[i], sci, x) by { assert(!block_free(ss, sc, x)); }
        assert forall|x: Seq<char>| #[trigger] sci.contains(x) implies si(x) by { lemma_tame_scope(ss, sc, i, x); }
        lemma_bridge_stmt(ss[i], sci, si);
    }
}
