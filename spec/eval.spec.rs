// ---- expression semantics (DESIGN section 4), written from C01/C04/C08/C10/C17 ----
// eval_rel is a relation because `random` is not a function of the environment.

/// trigger carrier for the existential witnesses below (a recursive call cannot serve as a trigger:
/// Verus indexes it by fuel). Always true.
spec fn wit(r: Result<i64, ExprError>) -> bool { true }

/// every function call names a table entry with the right arity (established by the parser, C12)
spec fn expr_wf(e: Expr) -> bool
    decreases e
{
    match e {
        Expr::Number(_) => true,
        Expr::Variable(_) => true,
        Expr::UnaryOp { op, expr } => expr_wf(*expr),
        Expr::BinOp { op, left, right } => expr_wf(*left) && expr_wf(*right),
        Expr::Func { name, args } => func_table_spec(name@) == Some(args@.len() as usize)
            && forall|i: int| 0 <= i < args@.len() ==> expr_wf(#[trigger] args@[i]),
    }
}

spec fn eval_rel(e: Expr, ctx: &EvalContext, r: Result<i64, ExprError>) -> bool
    decreases e
{
    match e {
        Expr::Number(n) => r == Ok::<i64, ExprError>(n),
        // C04: variables first, then the most recently read outputs; Z/X -> error item.
        // C10: a name bound nowhere on the executed path -> error item (never a panic).
        Expr::Variable(name) => match ctx.read(name@) {
            Some(OutputValue::Value(n)) => r == Ok::<i64, ExprError>(n),
            _ => r is Err,
        },
        Expr::UnaryOp { op, expr } => exists|r1: Result<i64, ExprError>| #[trigger] wit(r1) && eval_rel(*expr, ctx, r1) && match r1 {
            Ok(v) => r == Ok::<i64, ExprError>(unop_spec(op, v)),
            Err(_) => r is Err,
        },
        Expr::BinOp { op, left, right } => exists|rl: Result<i64, ExprError>| #[trigger] wit(rl) && eval_rel(*left, ctx, rl) && match rl {
            Err(_) => r is Err,
            Ok(a) => exists|rr: Result<i64, ExprError>| #[trigger] wit(rr) && eval_rel(*right, ctx, rr) && match rr {
                Err(_) => r is Err,
                Ok(b) => match binop_spec(op, a, b) {
                    Some(v) => r == Ok::<i64, ExprError>(v),
                    None => r is Err,   // division / remainder by zero (C10)
                },
            },
        },
        Expr::Func { name, args } => {
            if name@ == "ite"@ && args@.len() == 3 {
                // C08: only the selected branch is evaluated and returned
                exists|rc: Result<i64, ExprError>| #[trigger] wit(rc) && eval_rel(args@[0], ctx, rc) && match rc {
                    Err(_) => r is Err,
                    Ok(c) => if c != 0 { eval_rel(args@[1], ctx, r) } else { eval_rel(args@[2], ctx, r) },
                }
            } else if name@ == "random"@ && args@.len() == 1 {
                exists|rm: Result<i64, ExprError>| #[trigger] wit(rm) && eval_rel(args@[0], ctx, rm) && match rm {
                    Err(_) => r is Err,
                    // C17: 0 <= r < n for n >= 2.  n < 2 (possibly empty range): C10 - an error item or a value
                    Ok(n) => n >= 2 ==> (r is Ok && 0 <= r->Ok_0 < n),
                }
            } else {
                // signExt (not implemented) and anything the parser would have rejected: an error item (C10)
                r is Err
            }
        },
    }
}

/// contents of FUNC_TABLE as the parser and the evaluator rely on them
spec fn func_table_spec(name: Seq<char>) -> Option<usize> {
    if name == "random"@ { Some(1usize) } else if name == "ite"@ { Some(3usize) } else if name == "signExt"@ { Some(2usize) } else { None }
}

spec fn ite_rel(args: Seq<Expr>, ctx: &EvalContext, r: Result<i64, ExprError>) -> bool {
    exists|rc: Result<i64, ExprError>| #[trigger] wit(rc) && eval_rel(args[0], ctx, rc) && match rc {
        Err(_) => r is Err,
        Ok(c) => if c != 0 { eval_rel(args[1], ctx, r) } else { eval_rel(args[2], ctx, r) },
    }
}

spec fn random_rel(args: Seq<Expr>, ctx: &EvalContext, r: Result<i64, ExprError>) -> bool {
    exists|rm: Result<i64, ExprError>| #[trigger] wit(rm) && eval_rel(args[0], ctx, rm) && match rm {
        Err(_) => r is Err,
        Ok(n) => n >= 2 ==> (r is Ok && 0 <= r->Ok_0 < n),
    }
}

/// what calling the table entry `name` with `args` must establish
spec fn func_post(name: Seq<char>, args: Seq<Expr>, ctx: &EvalContext, r: Result<i64, ExprError>) -> bool {
    if name == "ite"@ { ite_rel(args, ctx, r) } else if name == "random"@ { random_rel(args, ctx, r) } else { r is Err }
}

proof fn lemma_func_names()
    ensures "ite"@ != "random"@, "ite"@ != "signExt"@, "random"@ != "signExt"@,
        func_table_spec("ite"@) == Some(3usize), func_table_spec("random"@) == Some(1usize), func_table_spec("signExt"@) == Some(2usize),
{
    reveal_strlit("ite"); reveal_strlit("random"); reveal_strlit("signExt");
    assert("ite"@.len() == 3); assert("random"@.len() == 6); assert("signExt"@.len() == 7);
}
