// ---- the grammar as a relation between token ranges and parse results (C08 syntax, C12, C19) ----
// Everything here is written from the property statements (C08: literals, operators, functions, parentheses; C12: the
// separators and terminators that must be present), not from the parser. `all[a..b)` is a range of the token sequence.

spec fn tk_unop(k: TokenKind) -> Option<UnaryOp> {
    match k {
        TokenKind::Minus => Some(UnaryOp::Minus),
        TokenKind::LogicalNot => Some(UnaryOp::LogicalNot),
        TokenKind::BinaryNot => Some(UnaryOp::BinaryNot),
        _ => None,
    }
}
/// the characters of a token
spec fn tok_str(input: &str, t: Token) -> Seq<char> { tok_text(input, t.span)@ }

/// trigger carriers for the existentials below (a recursive call cannot serve as a trigger)
spec fn wcuts(c: Seq<int>) -> bool { true }
spec fn wtree(t: BinOpTree) -> bool { true }
/// (index carrier: `cuts[i]` as a trigger would re-trigger itself through `cuts[i + 1]`)
spec fn wi(i: int) -> bool { true }

/// all[a..b) is one operand: a literal, a variable, a function call, a unary operator applied to an operand,
/// or an expression in parentheses
spec fn factor_src(all: Seq<Token>, input: &str, a: int, b: int, e: Expr) -> bool
    decreases b - a, 0int
{
    &&& 0 <= a < b <= all.len()
    &&& ((a + 2 < b && all[a].kind == TokenKind::LParen && all[b - 1].kind == TokenKind::RParen && expr_src(all, input, a + 1, b - 1, e))
        || match e {
            Expr::Number(n) => b == a + 1 && tk_is_number(all[a].kind) && lit_value(tok_text(input, all[a].span), all[a].kind) == Some(n),
            Expr::Variable(name) => b == a + 1 && all[a].kind == TokenKind::Ident && name@ == tok_str(input, all[a])
                && (b < all.len() ==> all[b].kind != TokenKind::LParen),
            Expr::Func { name, args } => a + 3 < b && all[a].kind == TokenKind::Ident && name@ == tok_str(input, all[a])
                && all[a + 1].kind == TokenKind::LParen && all[b - 1].kind == TokenKind::RParen && args_src(all, input, a + 2, b - 1, args@),
            Expr::UnaryOp { op, expr } => tk_unop(all[a].kind) == Some(op) && a + 1 < b && factor_src(all, input, a + 1, b, *expr),
            Expr::BinOp { op, left, right } => false,
        })
}

/// all[a..b) is operand (operator operand)*, and e is the tree that "tighter binds first, equal levels to the left" gives
/// for exactly these operands and operators (C08)
spec fn expr_src(all: Seq<Token>, input: &str, a: int, b: int, e: Expr) -> bool
    decreases b - a, 3int
{
    exists|t: BinOpTree| #[trigger] wtree(t) && t.wf() && e == t.to_expr() && flat_src(all, input, a, b, t.flat())
}

/// cuts[i] is where the i-th operand starts; the token before the next operand is the operator / separator
spec fn flat_src(all: Seq<Token>, input: &str, a: int, b: int, f: Seq<Tok>) -> bool
    decreases b - a, 2int
{
    exists|cuts: Seq<int>| #[trigger] wcuts(cuts) && cuts.len() >= 2 && cuts[0] == a && cuts.last() == b + 1 && flat_src_c(all, input, a, b, cuts, f)
}
spec fn flat_src_c(all: Seq<Token>, input: &str, a: int, b: int, cuts: Seq<int>, f: Seq<Tok>) -> bool
    decreases b - a, 1int
{
    &&& f.len() == 2 * (cuts.len() - 1) - 1
    &&& 0 <= a && b <= all.len()
    &&& forall|i: int| #[trigger] wi(i) && 0 <= i < cuts.len() - 1 ==> a <= cuts[i] && cuts[i] < cuts[i + 1] - 1 && cuts[i + 1] - 1 <= b
        && (f[2 * i] matches Tok::A(ei) && factor_src(all, input, cuts[i], cuts[i + 1] - 1, ei))
        && (i < cuts.len() - 2 ==> (f[2 * i + 1] matches Tok::O(op) && tk_binop(all[cuts[i + 1] - 1].kind) == Some(op)))
}

/// all[a..b) is expression (, expression)*
spec fn args_src(all: Seq<Token>, input: &str, a: int, b: int, args: Seq<Expr>) -> bool
    decreases b - a, 5int
{
    exists|cuts: Seq<int>| #[trigger] wcuts(cuts) && cuts.len() == args.len() + 1 && cuts.len() >= 2 && cuts[0] == a && cuts.last() == b + 1
        && args_src_c(all, input, a, b, cuts, args)
}
spec fn args_src_c(all: Seq<Token>, input: &str, a: int, b: int, cuts: Seq<int>, args: Seq<Expr>) -> bool
    decreases b - a, 4int
{
    &&& 0 <= a && b <= all.len()
    &&& forall|i: int| #[trigger] wi(i) && 0 <= i < cuts.len() - 1 ==> a <= cuts[i] && cuts[i] < cuts[i + 1] - 1 && cuts[i + 1] - 1 <= b
        && expr_src(all, input, cuts[i], cuts[i + 1] - 1, args[i])
        && (i < cuts.len() - 2 ==> all[cuts[i + 1] - 1].kind == TokenKind::Comma)
}

/// one more `operator operand` keeps the flat reading in step with the tokens
proof fn lemma_flat_src_extend(all: Seq<Token>, input: &str, a: int, b: int, b2: int, cuts: Seq<int>, f: Seq<Tok>, op: BinOp, e2: Expr)
    requires
        flat_src_c(all, input, a, b, cuts, f), cuts.len() >= 2, cuts.last() == b + 1,
        0 <= b < all.len(), tk_binop(all[b].kind) == Some(op),
        b + 1 < b2 <= all.len(), factor_src(all, input, b + 1, b2, e2),
    ensures
        flat_src_c(all, input, a, b2, cuts.push(b2 + 1), f + seq![Tok::O(op), Tok::A(e2)]),
{
    let c2 = cuts.push(b2 + 1);
    let f2 = f + seq![Tok::O(op), Tok::A(e2)];
    let n = cuts.len() - 1;
    assert forall|i: int| #[trigger] wi(i) && 0 <= i < c2.len() - 1 implies a <= c2[i] && c2[i] < c2[i + 1] - 1 && c2[i + 1] - 1 <= b2
        && (f2[2 * i] matches Tok::A(ei) && factor_src(all, input, c2[i], c2[i + 1] - 1, ei))
        && (i < c2.len() - 2 ==> (f2[2 * i + 1] matches Tok::O(op) && tk_binop(all[c2[i + 1] - 1].kind) == Some(op))) by {
        if i < n {
            assert(c2[i] == cuts[i] && c2[i + 1] == cuts[i + 1]);
            assert(f2[2 * i] == f[2 * i]);
            if i < n - 1 { assert(f2[2 * i + 1] == f[2 * i + 1]); } else { assert(f2[2 * i + 1] == Tok::O(op)); }
        } else {
            assert(wi(n - 1));
            assert(c2[i] == b + 1 && c2[i + 1] == b2 + 1);
            assert(f2[2 * i] == Tok::A(e2));
        }
    }
}
proof fn lemma_flat_src_first(all: Seq<Token>, input: &str, a: int, b: int, e: Expr)
    requires 0 <= a < b <= all.len(), factor_src(all, input, a, b, e)
    ensures flat_src_c(all, input, a, b, seq![a, b + 1], seq![Tok::A(e)])
{
    let c = seq![a, b + 1];
    let f = seq![Tok::A(e)];
    assert forall|i: int| #[trigger] wi(i) && 0 <= i < c.len() - 1 implies a <= c[i] && c[i] < c[i + 1] - 1 && c[i + 1] - 1 <= b
        && (f[2 * i] matches Tok::A(ei) && factor_src(all, input, c[i], c[i + 1] - 1, ei))
        && (i < c.len() - 2 ==> (f[2 * i + 1] matches Tok::O(op) && tk_binop(all[c[i + 1] - 1].kind) == Some(op))) by {
        assert(i == 0);
    }
}
/// one more `, expression`
proof fn lemma_args_src_extend(all: Seq<Token>, input: &str, a: int, b: int, b2: int, cuts: Seq<int>, args: Seq<Expr>, e2: Expr)
    requires
        args_src_c(all, input, a, b, cuts, args), cuts.len() == args.len() + 1, cuts.len() >= 1, cuts.last() == b + 1, cuts[0] == a,
        0 <= b < all.len(), args.len() > 0 ==> all[b].kind == TokenKind::Comma,
        b + 1 < b2 <= all.len(), expr_src(all, input, b + 1, b2, e2),
    ensures
        args_src_c(all, input, a, b2, cuts.push(b2 + 1), args.push(e2)),
{
    let c2 = cuts.push(b2 + 1);
    let g2 = args.push(e2);
    let n = cuts.len() - 1;
    assert forall|i: int| #[trigger] wi(i) && 0 <= i < c2.len() - 1 implies a <= c2[i] && c2[i] < c2[i + 1] - 1 && c2[i + 1] - 1 <= b2
        && expr_src(all, input, c2[i], c2[i + 1] - 1, g2[i])
        && (i < c2.len() - 2 ==> all[c2[i + 1] - 1].kind == TokenKind::Comma) by {
        if i < n {
            assert(c2[i] == cuts[i] && c2[i + 1] == cuts[i + 1]);
            assert(g2[i] == args[i]);
        } else {
            if n > 0 { assert(wi(n - 1)); }
            assert(c2[i] == b + 1 && c2[i + 1] == b2 + 1);
            assert(g2[i] == e2);
        }
    }
}

/// all[a..b) is one data-row entry (C12: the separators of `bits(k, e)` and the parentheses of `(e)` are present; the
/// width of a `bits` entry is the literal written in the text)
spec fn entry_src(all: Seq<Token>, input: &str, a: int, b: int, d: DataEntry) -> bool {
    &&& 0 <= a < b <= all.len()
    &&& match d {
        DataEntry::Number(n) => b == a + 1 && tk_is_number(all[a].kind) && lit_value(tok_text(input, all[a].span), all[a].kind) == Some(n),
        DataEntry::Expr(e) => a + 2 < b && all[a].kind == TokenKind::LParen && all[b - 1].kind == TokenKind::RParen && expr_src(all, input, a + 1, b - 1, e),
        DataEntry::Bits { number, expr } => a + 6 <= b && all[a].kind == TokenKind::Bits && all[a + 1].kind == TokenKind::LParen
            && tk_is_number(all[a + 2].kind) && lit_value(tok_text(input, all[a + 2].span), all[a + 2].kind) == Some(number as i64) // the width is the literal
            && all[a + 3].kind == TokenKind::Comma && expr_src(all, input, a + 4, b - 1, expr) && all[b - 1].kind == TokenKind::RParen,
        DataEntry::X | DataEntry::Z | DataEntry::C => b == a + 1 && all[a].kind == TokenKind::Ident,
    }
}
/// cuts[i]..cuts[i+1] is the source of data[i]; entries follow one another without anything in between
spec fn row_src_c(all: Seq<Token>, input: &str, cuts: Seq<int>, data: Seq<DataEntry>) -> bool {
    &&& cuts.len() == data.len() + 1
    &&& forall|i: int| #[trigger] wi(i) && 0 <= i < data.len() ==> entry_src(all, input, cuts[i], cuts[i + 1], data[i])
}
/// all[a..b) is a data row with these entries
spec fn row_src(all: Seq<Token>, input: &str, a: int, b: int, data: Seq<DataEntry>) -> bool {
    exists|cuts: Seq<int>| #[trigger] wcuts(cuts) && cuts.len() >= 1 && cuts[0] == a && cuts.last() == b && row_src_c(all, input, cuts, data)
}
proof fn lemma_row_src_extend(all: Seq<Token>, input: &str, cuts: Seq<int>, data: Seq<DataEntry>, b2: int, d: DataEntry)
    requires row_src_c(all, input, cuts, data), cuts.len() >= 1, entry_src(all, input, cuts.last(), b2, d)
    ensures row_src_c(all, input, cuts.push(b2), data.push(d))
{
    let c2 = cuts.push(b2);
    let d2 = data.push(d);
    assert forall|i: int| #[trigger] wi(i) && 0 <= i < d2.len() implies entry_src(all, input, c2[i], c2[i + 1], d2[i]) by {
        if i < data.len() {
            assert(c2[i] == cuts[i] && c2[i + 1] == cuts[i + 1] && d2[i] == data[i]);
        } else {
            assert(c2[i] == cuts.last() && c2[i + 1] == b2 && d2[i] == d);
        }
    }
}

// ---- statements and blocks ----
spec fn wblk(c: Seq<(int, int)>) -> bool { true }
spec fn wm(m: int, c: Seq<(int, int)>) -> bool { true }

/// the statements of a block lie in all[a..b) in order, apart, and each is followed by a line break or the end of input
spec fn blk_ok(all: Seq<Token>, a: int, b: int, cuts: Seq<(int, int)>, n: int) -> bool {
    &&& cuts.len() == n
    &&& forall|i: int| #[trigger] wi(i) && 0 <= i < n ==> a <= cuts[i].0 && cuts[i].0 < cuts[i].1 && cuts[i].1 <= b && cuts[i].1 < all.len()
        && (i > 0 ==> cuts[i - 1].1 < cuts[i].0)
        && (all[cuts[i].1].kind == TokenKind::Eol || all[cuts[i].1].kind == TokenKind::Eof)
}

spec fn wexpr(e: Expr) -> bool { true }

spec fn wblk2(c: Seq<(int, int)>, d: Seq<(int, int)>) -> bool { true }

/// all[a..b) is `declare <name> = <expression> ;` (C12, C14)
spec fn decl_src(all: Seq<Token>, input: &str, a: int, b: int) -> bool {
    &&& 0 <= a && a + 5 <= b && b <= all.len()
    &&& all[a].kind == TokenKind::Declare && all[a + 1].kind == TokenKind::Ident && all[a + 2].kind == TokenKind::Equal
    &&& all[b - 1].kind == TokenKind::Semi
    &&& exists|e: Expr| #[trigger] wexpr(e) && expr_src(all, input, a + 3, b - 1, e)
}
/// position j lies inside one of the ranges
spec fn in_cut(c: Seq<(int, int)>, j: int) -> bool { exists|i: int| #[trigger] wi(i) && 0 <= i < c.len() && c[i].0 <= j < c[i].1 }

/// C12: a block holds nothing but statements, declarations and line breaks. Every token of all[a..b) belongs to one of the
/// statements (`cuts`), to one of the declarations (`dcuts`: each is `declare name = expression ;` followed by a line
/// break or the end of input), or is a line break.
#[verifier::opaque]
spec fn gaps_ok(all: Seq<Token>, input: &str, a: int, b: int, cuts: Seq<(int, int)>, dcuts: Seq<(int, int)>) -> bool {
    &&& forall|i: int| #[trigger] wi(i) && 0 <= i < dcuts.len() ==> a <= dcuts[i].0 && dcuts[i].1 <= b && dcuts[i].1 < all.len()
        && decl_src(all, input, dcuts[i].0, dcuts[i].1)
        && (all[dcuts[i].1].kind == TokenKind::Eol || all[dcuts[i].1].kind == TokenKind::Eof)
    &&& forall|j: int| #[trigger] wj(j) && a <= j < b ==> all[j].kind == TokenKind::Eol || in_cut(cuts, j) || in_cut(dcuts, j)
}
proof fn lemma_in_cut_push(c: Seq<(int, int)>, x: (int, int), j: int)
    ensures in_cut(c, j) ==> in_cut(c.push(x), j), x.0 <= j < x.1 ==> in_cut(c.push(x), j)
{
    let c2 = c.push(x);
    if in_cut(c, j) {
        let i = choose|i: int| #[trigger] wi(i) && 0 <= i < c.len() && c[i].0 <= j < c[i].1;
        assert(wi(i) && c2[i] == c[i]);
    }
    if x.0 <= j < x.1 { assert(wi(c.len() as int) && c2[c.len() as int] == x); }
}
proof fn lemma_gaps_empty(all: Seq<Token>, input: &str, a: int)
    ensures gaps_ok(all, input, a, a, Seq::empty(), Seq::empty())
{ reveal(gaps_ok); }
/// one more line break
proof fn lemma_gaps_eol(all: Seq<Token>, input: &str, a: int, b: int, cuts: Seq<(int, int)>, dcuts: Seq<(int, int)>)
    requires gaps_ok(all, input, a, b, cuts, dcuts), 0 <= b < all.len(), all[b].kind == TokenKind::Eol
    ensures gaps_ok(all, input, a, b + 1, cuts, dcuts)
{ reveal(gaps_ok); }
/// one more statement, starting where the covered range ends
proof fn lemma_gaps_stmt(all: Seq<Token>, input: &str, a: int, b: int, b2: int, cuts: Seq<(int, int)>, dcuts: Seq<(int, int)>)
    requires gaps_ok(all, input, a, b, cuts, dcuts), b <= b2
    ensures gaps_ok(all, input, a, b2, cuts.push((b, b2)), dcuts)
{
    reveal(gaps_ok);
    let c2 = cuts.push((b, b2));
    assert forall|j: int| #[trigger] wj(j) && a <= j < b2 implies all[j].kind == TokenKind::Eol || in_cut(c2, j) || in_cut(dcuts, j) by {
        lemma_in_cut_push(cuts, (b, b2), j);
    }
}
/// one more declaration, starting where the covered range ends
proof fn lemma_gaps_decl(all: Seq<Token>, input: &str, a: int, b: int, b2: int, cuts: Seq<(int, int)>, dcuts: Seq<(int, int)>)
    requires gaps_ok(all, input, a, b, cuts, dcuts), a <= b, decl_src(all, input, b, b2), b2 < all.len(),
        all[b2].kind == TokenKind::Eol || all[b2].kind == TokenKind::Eof,
    ensures gaps_ok(all, input, a, b2, cuts, dcuts.push((b, b2)))
{
    reveal(gaps_ok);
    let d2 = dcuts.push((b, b2));
    assert forall|j: int| #[trigger] wj(j) && a <= j < b2 implies all[j].kind == TokenKind::Eol || in_cut(cuts, j) || in_cut(d2, j) by {
        lemma_in_cut_push(dcuts, (b, b2), j);
    }
    assert forall|i: int| #[trigger] wi(i) && 0 <= i < d2.len() implies a <= d2[i].0 && d2[i].1 <= b2 && d2[i].1 < all.len()
        && decl_src(all, input, d2[i].0, d2[i].1)
        && (all[d2[i].1].kind == TokenKind::Eol || all[d2[i].1].kind == TokenKind::Eof) by {
        if i < dcuts.len() { assert(d2[i] == dcuts[i]); } else { assert(d2[i] == (b, b2)); }
    }
}

/// all[a..b) is one statement that yields `s`. `base` is the line on which the token sequence starts: the line recorded
/// for a data row is base + the number of line breaks before the row's first token (C19). C12: every keyword,
/// parenthesis, comma, semicolon and `end <keyword>` the grammar demands is there.
#[verifier::opaque]
spec fn stmt_src(all: Seq<Token>, input: &str, base: int, a: int, b: int, s: Stmt) -> bool
    decreases s
{
    &&& 0 <= a < b <= all.len()
    &&& match s {
        Stmt::DataRow { data, line } => row_src(all, input, a, b, data@) && line == base + count_eol(all, a),
        Stmt::Let { name, expr } => a + 4 < b && all[a].kind == TokenKind::Let && all[a + 1].kind == TokenKind::Ident && name@ == tok_str(input, all[a + 1])
            && all[a + 2].kind == TokenKind::Equal && expr_src(all, input, a + 3, b - 1, expr) && all[b - 1].kind == TokenKind::Semi,
        Stmt::ResetRandom => b == a + 2 && all[a].kind == TokenKind::ResetRandom && all[a + 1].kind == TokenKind::Semi,
        Stmt::While { condition, inner } => a + 7 <= b && all[a].kind == TokenKind::While && all[a + 1].kind == TokenKind::LParen
            && all[b - 2].kind == TokenKind::End && all[b - 1].kind == TokenKind::While
            && (exists|m: int, cuts: Seq<(int, int)>| #[trigger] wm(m, cuts) && a + 2 < m && m + 2 <= b - 2
                && expr_src(all, input, a + 2, m, condition) && all[m].kind == TokenKind::RParen && all[m + 1].kind == TokenKind::Eol
                && blk_ok(all, m + 2, b, cuts, inner@.len() as int)
                && (forall|i: int| #[trigger] wi(i) && 0 <= i < inner@.len() ==> stmt_src(all, input, base, cuts[i].0, cuts[i].1, inner@[i]))
                // between the header line and `end while`: only these statements, declarations and line breaks
                && (exists|dcuts: Seq<(int, int)>| #[trigger] wblk(dcuts) && gaps_ok(all, input, m + 2, b - 2, cuts, dcuts))),
        Stmt::Loop { variable, max, inner } =>
            // loop(v, n) <line break> statements end loop
            (a + 9 <= b && all[a].kind == TokenKind::Loop && all[a + 1].kind == TokenKind::LParen && all[a + 2].kind == TokenKind::Ident
                && variable@ == tok_str(input, all[a + 2]) && all[a + 3].kind == TokenKind::Comma
                && all[b - 2].kind == TokenKind::End && all[b - 1].kind == TokenKind::Loop
                && (exists|m: int, cuts: Seq<(int, int)>| #[trigger] wm(m, cuts) && a + 4 < m && m + 2 <= b - 2
                    && expr_src(all, input, a + 4, m, max) && all[m].kind == TokenKind::RParen && all[m + 1].kind == TokenKind::Eol
                    && blk_ok(all, m + 2, b, cuts, inner@.len() as int)
                    && (forall|i: int| #[trigger] wi(i) && 0 <= i < inner@.len() ==> stmt_src(all, input, base, cuts[i].0, cuts[i].1, inner@[i]))
                    && (exists|dcuts: Seq<(int, int)>| #[trigger] wblk(dcuts) && gaps_ok(all, input, m + 2, b - 2, cuts, dcuts))))
            // repeat(n) row : a loop over the one row, counter `n` (C01)
            || (all[a].kind == TokenKind::Repeat && all[a + 1].kind == TokenKind::LParen && variable@ == "n"@ && inner@.len() == 1
                && (exists|m: int, cuts: Seq<(int, int)>| #[trigger] wm(m, cuts) && a + 2 < m && m + 1 <= b
                    && expr_src(all, input, a + 2, m, max) && all[m].kind == TokenKind::RParen
                    && (inner@[0] matches Stmt::DataRow { data, line } && row_src(all, input, m + 1, b, data@) && line == base + count_eol(all, m + 1)))),
    }
}

/// the block `ss` read from all[a..b)
spec fn block_src(all: Seq<Token>, input: &str, base: int, a: int, b: int, cuts: Seq<(int, int)>, ss: Seq<Stmt>) -> bool {
    &&& blk_ok(all, a, b, cuts, ss.len() as int)
    &&& forall|i: int| #[trigger] wi(i) && 0 <= i < ss.len() ==> stmt_src(all, input, base, cuts[i].0, cuts[i].1, ss[i])
}

proof fn lemma_block_src_extend(all: Seq<Token>, input: &str, base: int, a: int, b: int, b2: int, cuts: Seq<(int, int)>, ss: Seq<Stmt>, x: int, y: int, s: Stmt)
    requires
        block_src(all, input, base, a, b, cuts, ss), b <= x, a <= x, x < y <= b2, y < all.len(),
        ss.len() > 0 ==> cuts.last().1 < x,
        all[y].kind == TokenKind::Eol || all[y].kind == TokenKind::Eof,
        stmt_src(all, input, base, x, y, s),
    ensures
        block_src(all, input, base, a, b2, cuts.push((x, y)), ss.push(s)),
{
    let c2 = cuts.push((x, y));
    let s2 = ss.push(s);
    let n = ss.len() as int;
    assert forall|i: int| #[trigger] wi(i) && 0 <= i < n + 1 implies a <= c2[i].0 && c2[i].0 < c2[i].1 && c2[i].1 <= b2 && c2[i].1 < all.len()
        && (i > 0 ==> c2[i - 1].1 < c2[i].0)
        && (all[c2[i].1].kind == TokenKind::Eol || all[c2[i].1].kind == TokenKind::Eof) by {
        if i < n {
            assert(c2[i] == cuts[i]);
            if i > 0 { assert(c2[i - 1] == cuts[i - 1]); }
        } else {
            assert(c2[i] == (x, y));
            if i > 0 { assert(c2[i - 1] == cuts.last()); }
        }
    }
    assert forall|i: int| #[trigger] wi(i) && 0 <= i < s2.len() implies stmt_src(all, input, base, c2[i].0, c2[i].1, s2[i]) by {
        if i < n { assert(c2[i] == cuts[i] && s2[i] == ss[i]); } else { assert(c2[i] == (x, y) && s2[i] == s); }
    }
}
/// a wider range holds the same block
proof fn lemma_block_src_widen(all: Seq<Token>, input: &str, base: int, a: int, b: int, b2: int, cuts: Seq<(int, int)>, ss: Seq<Stmt>)
    requires block_src(all, input, base, a, b, cuts, ss), b <= b2
    ensures block_src(all, input, base, a, b2, cuts, ss)
{
    assert forall|i: int| #[trigger] wi(i) && 0 <= i < ss.len() implies cuts[i].1 <= b2 by { }
}

// one lemma per statement kind: from the token facts to stmt_src (the only places where stmt_src is unfolded)
proof fn lemma_stmt_src_row(all: Seq<Token>, input: &str, base: int, a: int, b: int, data: Vec<DataEntry>, line: usize)
    requires 0 <= a < b <= all.len(), row_src(all, input, a, b, data@), line == base + count_eol(all, a)
    ensures stmt_src(all, input, base, a, b, Stmt::DataRow { data, line })
{ reveal(stmt_src); }
proof fn lemma_stmt_src_let(all: Seq<Token>, input: &str, base: int, a: int, b: int, name: String, expr: Expr)
    requires 0 <= a && a + 4 < b <= all.len(), all[a].kind == TokenKind::Let, all[a + 1].kind == TokenKind::Ident, name@ == tok_str(input, all[a + 1]),
        all[a + 2].kind == TokenKind::Equal, expr_src(all, input, a + 3, b - 1, expr), all[b - 1].kind == TokenKind::Semi
    ensures stmt_src(all, input, base, a, b, Stmt::Let { name, expr })
{ reveal(stmt_src); }
proof fn lemma_stmt_src_reset(all: Seq<Token>, input: &str, base: int, a: int)
    requires 0 <= a && a + 2 <= all.len(), all[a].kind == TokenKind::ResetRandom, all[a + 1].kind == TokenKind::Semi
    ensures stmt_src(all, input, base, a, a + 2, Stmt::ResetRandom)
{ reveal(stmt_src); }
proof fn lemma_stmt_src_while(all: Seq<Token>, input: &str, base: int, a: int, b: int, m: int, cuts: Seq<(int, int)>, dcuts: Seq<(int, int)>, condition: Expr, inner: Vec<Stmt>)
    requires 0 <= a && a + 7 <= b <= all.len(), all[a].kind == TokenKind::While, all[a + 1].kind == TokenKind::LParen,
        all[b - 2].kind == TokenKind::End, all[b - 1].kind == TokenKind::While, a + 2 < m, m + 2 <= b - 2,
        expr_src(all, input, a + 2, m, condition), all[m].kind == TokenKind::RParen, all[m + 1].kind == TokenKind::Eol,
        block_src(all, input, base, m + 2, b, cuts, inner@), gaps_ok(all, input, m + 2, b - 2, cuts, dcuts),
    ensures stmt_src(all, input, base, a, b, Stmt::While { condition, inner })
{ reveal(stmt_src); assert(wm(m, cuts)); assert(wblk(dcuts)); }
proof fn lemma_stmt_src_loop(all: Seq<Token>, input: &str, base: int, a: int, b: int, m: int, cuts: Seq<(int, int)>, dcuts: Seq<(int, int)>, variable: String, max: Expr, inner: Vec<Stmt>)
    requires 0 <= a && a + 9 <= b <= all.len(), all[a].kind == TokenKind::Loop, all[a + 1].kind == TokenKind::LParen, all[a + 2].kind == TokenKind::Ident,
        variable@ == tok_str(input, all[a + 2]), all[a + 3].kind == TokenKind::Comma,
        all[b - 2].kind == TokenKind::End, all[b - 1].kind == TokenKind::Loop, a + 4 < m, m + 2 <= b - 2,
        expr_src(all, input, a + 4, m, max), all[m].kind == TokenKind::RParen, all[m + 1].kind == TokenKind::Eol,
        block_src(all, input, base, m + 2, b, cuts, inner@), gaps_ok(all, input, m + 2, b - 2, cuts, dcuts),
    ensures stmt_src(all, input, base, a, b, Stmt::Loop { variable, max, inner })
{ reveal(stmt_src); assert(wm(m, cuts)); assert(wblk(dcuts)); }
proof fn lemma_stmt_src_repeat(all: Seq<Token>, input: &str, base: int, a: int, b: int, m: int, variable: String, max: Expr, inner: Vec<Stmt>, data: Vec<DataEntry>, line: usize)
    requires 0 <= a < b <= all.len(), all[a].kind == TokenKind::Repeat, all[a + 1].kind == TokenKind::LParen, variable@ == "n"@,
        a + 2 < m, m + 1 <= b, expr_src(all, input, a + 2, m, max), all[m].kind == TokenKind::RParen,
        inner@.len() == 1, inner@[0] == (Stmt::DataRow { data, line }), row_src(all, input, m + 1, b, data@), line == base + count_eol(all, m + 1),
    ensures stmt_src(all, input, base, a, b, Stmt::Loop { variable, max, inner })
{ reveal(stmt_src); assert(wm(m, Seq::<(int, int)>::empty())); }
