// ---- the grammar as a relation between token ranges and parse results (C08 syntax, C12, C19) ----
// Everything here is written from the property statements (C08: literals, operators, functions, parentheses; C12: the
// separators and terminators that must be present), not from the parser. `all[a..b)` is a range of the token sequence.

spec fn tk_unop(k: TokenKind) -> Option<UnaryOp> {
    match k {
        TokenKind::Minus => Some(UnaryOp::Minus),
        TokenKind::LogicalNot => Some(UnaryOp::LogicalNot),
        TokenKind::BinaryNot => Some(UnaryOp::BinaryNot),
        _ => None,
    }
}
/// the characters of a token
spec fn tok_str(input: &str, t: Token) -> Seq<char> { tok_text(input, t.span)@ }

/// trigger carriers for the existentials below (a recursive call cannot serve as a trigger)
spec fn wcuts(c: Seq<int>) -> bool { true }
spec fn wtree(t: BinOpTree) -> bool { true }
/// (index carrier: `cuts[i]` as a trigger would re-trigger itself through `cuts[i + 1]`)
spec fn wi(i: int) -> bool { true }

/// all[a..b) is one operand: a literal, a variable, a function call, a unary operator applied to an operand,
/// or an expression in parentheses
spec fn factor_src(all: Seq<Token>, input: &str, a: int, b: int, e: Expr) -> bool
    decreases b - a, 0int
{
    &&& 0 <= a < b <= all.len()
    &&& ((a + 2 < b && all[a].kind == TokenKind::LParen && all[b - 1].kind == TokenKind::RParen && expr_src(all, input, a + 1, b - 1, e))
        || match e {
            Expr::Number(n) => b == a + 1 && tk_is_number(all[a].kind) && lit_value(tok_text(input, all[a].span), all[a].kind) == Some(n),
            Expr::Variable(name) => b == a + 1 && all[a].kind == TokenKind::Ident && name@ == tok_str(input, all[a])
                && (b < all.len() ==> all[b].kind != TokenKind::LParen),
            Expr::Func { name, args } => a + 3 < b && all[a].kind == TokenKind::Ident && name@ == tok_str(input, all[a])
                && all[a + 1].kind == TokenKind::LParen && all[b - 1].kind == TokenKind::RParen && args_src(all, input, a + 2, b - 1, args@),
            Expr::UnaryOp { op, expr } => tk_unop(all[a].kind) == Some(op) && a + 1 < b && factor_src(all, input, a + 1, b, *expr),
            Expr::BinOp { op, left, right } => false,
        })
}

/// all[a..b) is operand (operator operand)*, and e is the tree that "tighter binds first, equal levels to the left" gives
/// for exactly these operands and operators (C08)
spec fn expr_src(all: Seq<Token>, input: &str, a: int, b: int, e: Expr) -> bool
    decreases b - a, 3int
{
    exists|t: BinOpTree| #[trigger] wtree(t) && t.wf() && e == t.to_expr() && flat_src(all, input, a, b, t.flat())
}

/// cuts[i] is where the i-th operand starts; the token before the next operand is the operator / separator
spec fn flat_src(all: Seq<Token>, input: &str, a: int, b: int, f: Seq<Tok>) -> bool
    decreases b - a, 2int
{
    exists|cuts: Seq<int>| #[trigger] wcuts(cuts) && cuts.len() >= 2 && cuts[0] == a && cuts.last() == b + 1 && flat_src_c(all, input, a, b, cuts, f)
}
spec fn flat_src_c(all: Seq<Token>, input: &str, a: int, b: int, cuts: Seq<int>, f: Seq<Tok>) -> bool
    decreases b - a, 1int
{
    &&& f.len() == 2 * (cuts.len() - 1) - 1
    &&& 0 <= a && b <= all.len()
    &&& forall|i: int| #[trigger] wi(i) && 0 <= i < cuts.len() - 1 ==> a <= cuts[i] && cuts[i] < cuts[i + 1] - 1 && cuts[i + 1] - 1 <= b
        && (f[2 * i] matches Tok::A(ei) && factor_src(all, input, cuts[i], cuts[i + 1] - 1, ei))
        && (i < cuts.len() - 2 ==> (f[2 * i + 1] matches Tok::O(op) && tk_binop(all[cuts[i + 1] - 1].kind) == Some(op)))
}

/// all[a..b) is expression (, expression)*
spec fn args_src(all: Seq<Token>, input: &str, a: int, b: int, args: Seq<Expr>) -> bool
    decreases b - a, 5int
{
    exists|cuts: Seq<int>| #[trigger] wcuts(cuts) && cuts.len() == args.len() + 1 && cuts.len() >= 2 && cuts[0] == a && cuts.last() == b + 1
        && args_src_c(all, input, a, b, cuts, args)
}
spec fn args_src_c(all: Seq<Token>, input: &str, a: int, b: int, cuts: Seq<int>, args: Seq<Expr>) -> bool
    decreases b - a, 4int
{
    &&& 0 <= a && b <= all.len()
    &&& forall|i: int| #[trigger] wi(i) && 0 <= i < cuts.len() - 1 ==> a <= cuts[i] && cuts[i] < cuts[i + 1] - 1 && cuts[i + 1] - 1 <= b
        && expr_src(all, input, cuts[i], cuts[i + 1] - 1, args[i])
        && (i < cuts.len() - 2 ==> all[cuts[i + 1] - 1].kind == TokenKind::Comma)
}

/// one more `operator operand` keeps the flat reading in step with the tokens
proof fn lemma_flat_src_extend(all: Seq<Token>, input: &str, a: int, b: int, b2: int, cuts: Seq<int>, f: Seq<Tok>, op: BinOp, e2: Expr)
    requires
        flat_src_c(all, input, a, b, cuts, f), cuts.len() >= 2, cuts.last() == b + 1,
        0 <= b < all.len(), tk_binop(all[b].kind) == Some(op),
        b + 1 < b2 <= all.len(), factor_src(all, input, b + 1, b2, e2),
    ensures
        flat_src_c(all, input, a, b2, cuts.push(b2 + 1), f + seq![Tok::O(op), Tok::A(e2)]),
{
    let c2 = cuts.push(b2 + 1);
    let f2 = f + seq![Tok::O(op), Tok::A(e2)];
    let n = cuts.len() - 1;
    assert forall|i: int| #[trigger] wi(i) && 0 <= i < c2.len() - 1 implies a <= c2[i] && c2[i] < c2[i + 1] - 1 && c2[i + 1] - 1 <= b2
        && (f2[2 * i] matches Tok::A(ei) && factor_src(all, input, c2[i], c2[i + 1] - 1, ei))
        && (i < c2.len() - 2 ==> (f2[2 * i + 1] matches Tok::O(op) && tk_binop(all[c2[i + 1] - 1].kind) == Some(op))) by {
        if i < n {
            assert(c2[i] == cuts[i] && c2[i + 1] == cuts[i + 1]);
            assert(f2[2 * i] == f[2 * i]);
            if i < n - 1 { assert(f2[2 * i + 1] == f[2 * i + 1]); } else { assert(f2[2 * i + 1] == Tok::O(op)); }
        } else {
            assert(wi(n - 1));
            assert(c2[i] == b + 1 && c2[i + 1] == b2 + 1);
            assert(f2[2 * i] == Tok::A(e2));
        }
    }
}
proof fn lemma_flat_src_first(all: Seq<Token>, input: &str, a: int, b: int, e: Expr)
    requires 0 <= a < b <= all.len(), factor_src(all, input, a, b, e)
    ensures flat_src_c(all, input, a, b, seq![a, b + 1], seq![Tok::A(e)])
{
    let c = seq![a, b + 1];
    let f = seq![Tok::A(e)];
    assert forall|i: int| #[trigger] wi(i) && 0 <= i < c.len() - 1 implies a <= c[i] && c[i] < c[i + 1] - 1 && c[i + 1] - 1 <= b
        && (f[2 * i] matches Tok::A(ei) && factor_src(all, input, c[i], c[i + 1] - 1, ei))
        && (i < c.len() - 2 ==> (f[2 * i + 1] matches Tok::O(op) && tk_binop(all[c[i + 1] - 1].kind) == Some(op))) by {
        assert(i == 0);
    }
}
/// one more `, expression`
proof fn lemma_args_src_extend(all: Seq<Token>, input: &str, a: int, b: int, b2: int, cuts: Seq<int>, args: Seq<Expr>, e2: Expr)
    requires
        args_src_c(all, input, a, b, cuts, args), cuts.len() == args.len() + 1, cuts.len() >= 1, cuts.last() == b + 1, cuts[0] == a,
        0 <= b < all.len(), args.len() > 0 ==> all[b].kind == TokenKind::Comma,
        b + 1 < b2 <= all.len(), expr_src(all, input, b + 1, b2, e2),
    ensures
        args_src_c(all, input, a, b2, cuts.push(b2 + 1), args.push(e2)),
{
    let c2 = cuts.push(b2 + 1);
    let g2 = args.push(e2);
    let n = cuts.len() - 1;
    assert forall|i: int| #[trigger] wi(i) && 0 <= i < c2.len() - 1 implies a <= c2[i] && c2[i] < c2[i + 1] - 1 && c2[i + 1] - 1 <= b2
        && expr_src(all, input, c2[i], c2[i + 1] - 1, g2[i])
        && (i < c2.len() - 2 ==> all[c2[i + 1] - 1].kind == TokenKind::Comma) by {
        if i < n {
            assert(c2[i] == cuts[i] && c2[i + 1] == cuts[i + 1]);
            assert(g2[i] == args[i]);
        } else {
            if n > 0 { assert(wi(n - 1)); }
            assert(c2[i] == b + 1 && c2[i + 1] == b2 + 1);
            assert(g2[i] == e2);
        }
    }
}

/// all[a..b) is one data-row entry (C12: the separators of `bits(k, e)` and the parentheses of `(e)` are present; the
/// width of a `bits` entry is the literal written in the text)
spec fn entry_src(all: Seq<Token>, input: &str, a: int, b: int, d: DataEntry) -> bool {
    &&& 0 <= a < b <= all.len()
    &&& match d {
        DataEntry::Number(n) => b == a + 1 && tk_is_number(all[a].kind) && lit_value(tok_text(input, all[a].span), all[a].kind) == Some(n),
        DataEntry::Expr(e) => a + 2 < b && all[a].kind == TokenKind::LParen && all[b - 1].kind == TokenKind::RParen && expr_src(all, input, a + 1, b - 1, e),
        DataEntry::Bits { number, expr } => a + 6 <= b && all[a].kind == TokenKind::Bits && all[a + 1].kind == TokenKind::LParen
            && tk_is_number(all[a + 2].kind) && lit_value(tok_text(input, all[a + 2].span), all[a + 2].kind) == Some(number as i64) // the width is the literal
            && all[a + 3].kind == TokenKind::Comma && expr_src(all, input, a + 4, b - 1, expr) && all[b - 1].kind == TokenKind::RParen,
        DataEntry::X | DataEntry::Z | DataEntry::C => b == a + 1 && all[a].kind == TokenKind::Ident,
    }
}
/// cuts[i]..cuts[i+1] is the source of data[i]; entries follow one another without anything in between
spec fn row_src_c(all: Seq<Token>, input: &str, cuts: Seq<int>, data: Seq<DataEntry>) -> bool {
    &&& cuts.len() == data.len() + 1
    &&& forall|i: int| #[trigger] wi(i) && 0 <= i < data.len() ==> entry_src(all, input, cuts[i], cuts[i + 1], data[i])
}
/// all[a..b) is a data row with these entries
spec fn row_src(all: Seq<Token>, input: &str, a: int, b: int, data: Seq<DataEntry>) -> bool {
    exists|cuts: Seq<int>| #[trigger] wcuts(cuts) && cuts.len() >= 1 && cuts[0] == a && cuts.last() == b && row_src_c(all, input, cuts, data)
}
proof fn lemma_row_src_extend(all: Seq<Token>, input: &str, cuts: Seq<int>, data: Seq<DataEntry>, b2: int, d: DataEntry)
    requires row_src_c(all, input, cuts, data), cuts.len() >= 1, entry_src(all, input, cuts.last(), b2, d)
    ensures row_src_c(all, input, cuts.push(b2), data.push(d))
{
    let c2 = cuts.push(b2);
    let d2 = data.push(d);
    assert forall|i: int| #[trigger] wi(i) && 0 <= i < d2.len() implies entry_src(all, input, c2[i], c2[i + 1], d2[i]) by {
        if i < data.len() {
            assert(c2[i] == cuts[i] && c2[i + 1] == cuts[i + 1] && d2[i] == data[i]);
        } else {
            assert(c2[i] == cuts.last() && c2[i + 1] == b2 && d2[i] == d);
        }
    }
}
