// [A-std] slice::Iter::position: index of the first element accepted by the predicate
pub assume_specification<'a, T, P: FnMut(&'a T) -> bool>[ <core::slice::Iter<'a, T> as Iterator>::position ](it: &mut core::slice::Iter<'a, T>, pred: P) -> (r: Option<usize>)
    where core::slice::Iter<'a, T>: Sized,
    requires
        forall|i: int| 0 <= i < old(it).remaining().len() ==> call_requires(pred, (old(it).remaining()[i],)),
    ensures
        match r {
            Some(n) => n < old(it).remaining().len() && call_ensures(pred, (old(it).remaining()[n as int],), true)
                && (forall|m: int| 0 <= m < n ==> call_ensures(pred, (#[trigger] old(it).remaining()[m],), false)),
            None => forall|m: int| 0 <= m < old(it).remaining().len() ==> call_ensures(pred, (#[trigger] old(it).remaining()[m],), false),
        };

// N7 [A-std]: `v.iter().position(f)` on a Vec is emitted as `verif_position(&v, f)`: index of the first element accepted by f
#[verifier::external_body]
fn verif_position<T, F: FnMut(&T) -> bool>(xs: &Vec<T>, f: F) -> (r: Option<usize>)
    requires
        forall|i: int| 0 <= i < xs@.len() ==> call_requires(f, (&xs@[i],)),
    ensures
        xs@.len() <= usize::MAX,
        match r {
            Some(n) => n < xs@.len() && call_ensures(f, (&xs@[n as int],), true)
                && (forall|m: int| 0 <= m < n ==> call_ensures(f, (&#[trigger] xs@[m],), false)),
            None => forall|m: int| 0 <= m < xs@.len() ==> call_ensures(f, (&#[trigger] xs@[m],), false),
        },
{
    xs.iter().position(f)
}
