// ---- TokenIter over logos' SpannedIter (C09): the part of the token-stream contract that is /repo's own code ----
// N10: `SpannedIter<'a, TokenKind>` is replaced by this opaque stand-in. [A-logos] it yields a fixed sequence of
// (kind or lexing error, span) pairs and then `None` forever (it is fused); `span()` after the end is the end of the text.
#[verifier::external_body]
struct VerifSpanned<'a> { _opaque: core::marker::PhantomData<&'a str> }

impl<'a> VerifSpanned<'a> {
    /// what the lexer still has to yield
    uninterp spec fn rest(&self) -> Seq<(Result<TokenKind, ()>, core::ops::Range<usize>)>;
    /// the span reported once the lexer is exhausted
    uninterp spec fn end_span(&self) -> core::ops::Range<usize>;

    #[verifier::external_body]
    fn next(&mut self) -> (r: Option<(Result<TokenKind, ()>, core::ops::Range<usize>)>)
        ensures
            final(self).end_span() == old(self).end_span(),
            match r {
                Some(x) => old(self).rest().len() > 0 && x == old(self).rest()[0] && final(self).rest() == old(self).rest().skip(1),
                None => old(self).rest().len() == 0 && final(self).rest() == old(self).rest(),
            },
    { unimplemented!() }

    #[verifier::external_body]
    fn span(&self) -> (r: core::ops::Range<usize>)
        ensures self.rest().len() == 0 ==> r == self.end_span(),
    { unimplemented!() }
}

/// the token a lexer item becomes: its kind, or Error for text no rule matches; the span as it is
spec fn tok_of(x: (Result<TokenKind, ()>, core::ops::Range<usize>)) -> Token {
    Token { kind: match x.0 { Ok(k) => k, Err(_) => TokenKind::Error }, span: x.1 }
}

impl<'a> TokenIter<'a> {
    /// C09: the tokens this iterator will yield: one per lexer item, then exactly one Eof located at the end of the text,
    /// then nothing
    spec fn toks(&self) -> Seq<Token> {
        self.iter.rest().map_values(|x: (Result<TokenKind, ()>, core::ops::Range<usize>)| tok_of(x))
            + (if self.eof { Seq::<Token>::empty() } else { seq![Token { kind: TokenKind::Eof, span: self.iter.end_span() }] })
    }
}
