// ---- C05: the order of the 2^k assignments in closed form ----
// `x_expand` (spec/expand.spec.rs) is defined by splitting on the right-most X column, 0-half first. The statement describes the
// order directly: "once for each of the 2^k assignments of 0/1 to those columns (leftmost such column varying fastest, 0 before 1)".
// The lemma below states that reading: if the j-th X column from the left gets the bit b[j], the row stands at position
// sum_j b[j] * 2^j (so flipping the left-most X moves by one place, and among rows that agree elsewhere 0 stands before 1),
// there are exactly 2^k rows, and every other column is untouched.

impl Cols {
    spec fn pow2(k: nat) -> nat
        decreases k
    {
        if k == 0 { 1 } else { 2 * Self::pow2((k - 1) as nat) }
    }
    spec fn is_bits(b: Seq<int>) -> bool { forall|j: int| 0 <= j < b.len() ==> #[trigger] b[j] == 0 || b[j] == 1 }
    /// position of the assignment b: b[j] is the value of the j-th X column from the left; the left-most varies fastest
    spec fn pos_of(b: Seq<int>) -> int
        decreases b.len()
    {
        if b.len() == 0 { 0 } else { Self::pos_of(b.drop_last()) + b.last() * Self::pow2((b.len() - 1) as nat) }
    }
    /// e with its input X columns below n, from the left, set to the bits b
    spec fn assign(&self, e: Seq<DataEntry>, n: int, b: Seq<int>) -> Seq<DataEntry>
        decreases n
    {
        if n <= 0 { e } else if self.is_x_col(e, n - 1) {
            self.assign(e, n - 1, b.drop_last()).update(n - 1, DataEntry::Number(b.last() as i64))
        } else { self.assign(e, n - 1, b) }
    }

    proof fn lemma_pos_bound(b: Seq<int>)
        requires Self::is_bits(b)
        ensures 0 <= Self::pos_of(b) < Self::pow2(b.len())
        decreases b.len()
    {
        if b.len() > 0 {
            assert(Self::is_bits(b.drop_last())) by { assert forall|j: int| 0 <= j < b.drop_last().len() implies #[trigger] b.drop_last()[j] == 0 || b.drop_last()[j] == 1 by { assert(b.drop_last()[j] == b[j]); } }
            Self::lemma_pos_bound(b.drop_last());
            assert(b.last() == b[b.len() - 1]);
        }
    }
    proof fn lemma_assign_len(&self, e: Seq<DataEntry>, n: int, b: Seq<int>)
        requires n <= e.len()
        ensures self.assign(e, n, b).len() == e.len()
        decreases n
    {
        if n > 0 {
            if self.is_x_col(e, n - 1) { self.lemma_assign_len(e, n - 1, b.drop_last()); } else { self.lemma_assign_len(e, n - 1, b); }
        }
    }
    /// columns at or above n are not touched
    proof fn lemma_assign_update_above(&self, e: Seq<DataEntry>, n: int, i: int, w: DataEntry, b: Seq<int>)
        requires 0 <= n <= i < e.len()
        ensures self.assign(e.update(i, w), n, b) == self.assign(e, n, b).update(i, w)
        decreases n
    {
        let e2 = e.update(i, w);
        if n > 0 {
            assert(self.is_x_col(e2, n - 1) == self.is_x_col(e, n - 1));
            if self.is_x_col(e, n - 1) {
                self.lemma_assign_update_above(e, n - 1, i, w, b.drop_last());
                self.lemma_assign_len(e, n - 1, b.drop_last());
                let a = self.assign(e, n - 1, b.drop_last());
                let v = DataEntry::Number(b.last() as i64);
                assert(a.update(i, w).update(n - 1, v) =~= a.update(n - 1, v).update(i, w));
            } else {
                self.lemma_assign_update_above(e, n - 1, i, w, b);
            }
        }
    }
    /// fixing the right-most X column first (as `x_expand` does) and assigning the others gives the same row
    proof fn lemma_assign_rightmost(&self, e: Seq<DataEntry>, n: int, i: int, b: Seq<int>)
        requires 0 <= i < n <= e.len(), self.is_x_col(e, i), forall|j: int| i < j < n ==> !self.is_x_col(e, j), b.len() >= 1
        ensures self.assign(e, n, b) == self.assign(e.update(i, DataEntry::Number(b.last() as i64)), n, b.drop_last())
        decreases n
    {
        let w = DataEntry::Number(b.last() as i64);
        let e2 = e.update(i, w);
        if n - 1 > i {
            assert(!self.is_x_col(e, n - 1));
            assert(!self.is_x_col(e2, n - 1));
            self.lemma_assign_rightmost(e, n - 1, i, b);
        } else {
            assert(!self.is_x_col(e2, i));
            self.lemma_assign_update_above(e, i, i, w, b.drop_last());
        }
    }
    proof fn lemma_count_zero(&self, e: Seq<DataEntry>, n: int)
        requires forall|j: int| 0 <= j < n ==> !self.is_x_col(e, j)
        ensures self.count_x(e, n) == 0
        decreases n
    {
        if n > 0 { self.lemma_count_zero(e, n - 1); }
    }
    proof fn lemma_assign_no_x(&self, e: Seq<DataEntry>, n: int, b: Seq<int>)
        requires forall|j: int| 0 <= j < n ==> !self.is_x_col(e, j)
        ensures self.assign(e, n, b) == e
        decreases n
    {
        if n > 0 { self.lemma_assign_no_x(e, n - 1, b); }
    }

    proof fn lemma_count_mono(&self, e: Seq<DataEntry>, c: int, n: int)
        requires c <= n
        ensures self.count_x(e, c) <= self.count_x(e, n), (0 <= c < n && self.is_x_col(e, c)) ==> self.count_x(e, c) < self.count_x(e, n)
        decreases n - c
    {
        if c < n {
            self.lemma_count_mono(e, c, n - 1);
        }
    }
    /// what `assign` does, column by column: the j-th input X column from the left (j = number of X columns to its left) gets
    /// b[j]; every other column keeps its entry
    proof fn lemma_assign_at(&self, e: Seq<DataEntry>, n: int, b: Seq<int>, c: int)
        requires b.len() == self.count_x(e, n), 0 <= n <= e.len(), 0 <= c < e.len()
        ensures self.assign(e, n, b)[c] == (if c < n && self.is_x_col(e, c) { DataEntry::Number(b[self.count_x(e, c) as int] as i64) } else { e[c] }) // [C05.order.columns]
        decreases n
    {
        if n > 0 {
            if self.is_x_col(e, n - 1) {
                self.lemma_assign_at(e, n - 1, b.drop_last(), c);
                self.lemma_assign_len(e, n - 1, b.drop_last());
                if c < n - 1 && self.is_x_col(e, c) {
                    self.lemma_count_mono(e, c, n - 1);
                    assert(b.drop_last()[self.count_x(e, c) as int] == b[self.count_x(e, c) as int]);
                }
                if c == n - 1 { assert(b.last() == b[self.count_x(e, n - 1) as int]); }
            } else {
                self.lemma_assign_at(e, n - 1, b, c);
            }
        }
    }

    /// C05: the closed form of the order
    proof fn theorem_x_order(&self, e: Seq<DataEntry>, b: Seq<int>)
        requires b.len() == self.count_x(e, e.len() as int), Self::is_bits(b)
        ensures
            self.x_expand(e).len() == Self::pow2(b.len()), // [C05.order.count]
            0 <= Self::pos_of(b) < self.x_expand(e).len(),
            self.x_expand(e)[Self::pos_of(b)] == self.assign(e, e.len() as int, b), // [C05.order.closed-form]
        decreases self.count_x(e, e.len() as int)
    {
        let n = e.len() as int;
        Self::lemma_pos_bound(b);
        self.lemma_rightmost_x(e, n);
        match self.rightmost_x(e, n) {
            None => {
                self.lemma_count_zero(e, n);
                self.lemma_assign_no_x(e, n, b);
                assert(self.x_expand(e) == seq![e]);
            }
            Some(i) => {
                let e0 = e.update(i, DataEntry::Number(0));
                let e1 = e.update(i, DataEntry::Number(1));
                self.lemma_count_x_update(e, n, i, DataEntry::Number(0));
                self.lemma_count_x_update(e, n, i, DataEntry::Number(1));
                let b0 = b.drop_last();
                assert(Self::is_bits(b0)) by { assert forall|j: int| 0 <= j < b0.len() implies #[trigger] b0[j] == 0 || b0[j] == 1 by { assert(b0[j] == b[j]); } }
                self.theorem_x_order(e0, b0);
                self.theorem_x_order(e1, b0);
                Self::lemma_pos_bound(b0);
                let a = self.x_expand(e0);
                let c = self.x_expand(e1);
                assert(self.x_expand(e) == a + c);
                self.lemma_assign_rightmost(e, n, i, b);
                assert(b.last() == b[b.len() - 1]);
                if b.last() == 0 {
                    assert((a + c)[Self::pos_of(b0)] == a[Self::pos_of(b0)]);
                } else {
                    assert((a + c)[a.len() + Self::pos_of(b0)] == c[Self::pos_of(b0)]);
                }
            }
        }
    }
}
