// ---- parser invariants (C09, C12, C19) ----

impl<'a> Parser<'a> {
    /// everything but the token stream and the line counter is unchanged
    spec fn same_tables(&self, o: &Self) -> bool {
        self.input == o.input && self.signals == o.signals && self.virtual_signals == o.virtual_signals
            && self.expected_inputs == o.expected_inputs && self.expected_outputs == o.expected_outputs && self.vars == o.vars
    }
    /// Eof has not been consumed, the token stream is as the lexer contract says, the scope set is well formed,
    /// and the line counter cannot overflow
    spec fn pinv(&self) -> bool {
        &&& self.iter.toks().len() > 0
        &&& stream_ok(self.iter.toks(), self.input)
        &&& self.vars.map.wf()
        &&& self.line + self.iter.toks().len() <= usize::MAX
    }
}

impl<'a> Parser<'a> {
    /// the state after consuming one token of `o`
    spec fn advanced(&self, o: &Self) -> bool {
        &&& self.same_tables(o)
        &&& o.iter.toks().len() > 0
        &&& self.iter.toks() == o.iter.toks().skip(1)
        // C19: the line counter counts the line breaks consumed
        &&& self.line == o.line + (if o.iter.toks()[0].kind == TokenKind::Eol { 1int } else { 0int })
        &&& stream_ok(self.iter.toks(), self.input)
        &&& self.line + self.iter.toks().len() <= usize::MAX
        &&& valid_span(o.input, o.iter.toks()[0].span)
        &&& (o.iter.toks()[0].kind != TokenKind::Eof ==> self.iter.toks().len() > 0 && o.iter.toks()[0].span.end <= self.iter.toks()[0].span.start)
        &&& (o.iter.toks()[0].kind == TokenKind::Eof ==> self.iter.toks().len() == 0)
        &&& ((o.iter.toks()[0].kind == TokenKind::HexInt || o.iter.toks()[0].kind == TokenKind::BinInt) ==> has_prefix2(tok_text(o.input, o.iter.toks()[0].span)))
    }
}

/// C09: every location attached to the error lies within the source text on character boundaries
spec fn spans_valid(e: ParseError, input: &str) -> bool {
    forall|i: int| 0 <= i < e.at@.len() ==> valid_span(input, #[trigger] e.at@[i])
}

/// the binary operator a token kind stands for (C08: ! and ~ are unary only)
spec fn tk_binop(k: TokenKind) -> Option<BinOp> {
    match k {
        TokenKind::Plus => Some(BinOp::Plus), TokenKind::Minus => Some(BinOp::Minus), TokenKind::Times => Some(BinOp::Times),
        TokenKind::Divide => Some(BinOp::Divide), TokenKind::Reminder => Some(BinOp::Reminder), TokenKind::Xor => Some(BinOp::Xor),
        TokenKind::And => Some(BinOp::And), TokenKind::Or => Some(BinOp::Or), TokenKind::ShiftLeft => Some(BinOp::ShiftLeft),
        TokenKind::ShiftRight => Some(BinOp::ShiftRight), TokenKind::Equal => Some(BinOp::Equal), TokenKind::NotEqual => Some(BinOp::NotEqual),
        TokenKind::LessThanOrEqual => Some(BinOp::LessThanOrEqual), TokenKind::GreaterThanOrEqual => Some(BinOp::GreaterThanOrEqual),
        TokenKind::LessThan => Some(BinOp::LessThan), TokenKind::GreaterThan => Some(BinOp::GreaterThan),
        _ => None,
    }
}
spec fn tk_is_number(k: TokenKind) -> bool { k == TokenKind::DecInt || k == TokenKind::HexInt || k == TokenKind::OctInt || k == TokenKind::BinInt }

uninterp spec fn strip2(s: &str) -> &str;
/// [A-std] i64::from_str_radix as a function of the digits and the radix (None: does not fit in 64 bits / not a number)
uninterp spec fn radix_value(digits: &str, radix: u32) -> Option<i64>;

/// C08: decimal, 0x hexadecimal, 0b binary, octal when starting with 0
spec fn lit_value(text: &str, k: TokenKind) -> Option<i64> {
    match k {
        TokenKind::DecInt => radix_value(text, 10),
        TokenKind::HexInt => radix_value(strip2(text), 16),
        TokenKind::OctInt => radix_value(text, 8),
        TokenKind::BinInt => radix_value(strip2(text), 2),
        _ => None,
    }
}

// N9 [A-std]: `&literal[2..]` is emitted as verif_strip_prefix2(literal)
#[verifier::external_body]
fn verif_strip_prefix2(s: &str) -> (r: &str)
    requires has_prefix2(s),
    ensures r == strip2(s),
{
    &s[2..]
}
// N9 [A-std]: i64::from_str_radix; panics unless 2 <= radix <= 36
#[verifier::external_body]
fn verif_from_str_radix(s: &str, radix: u32) -> (r: Result<i64, core::num::ParseIntError>)
    requires 2 <= radix <= 36,
    ensures match r { Ok(n) => radix_value(s, radix) == Some(n), Err(_) => radix_value(s, radix) is None },
{
    i64::from_str_radix(s, radix)
}

impl<'a> Parser<'a> {
    /// number of tokens consumed since `o`
    spec fn consumed(&self, o: &Self) -> int { o.iter.toks().len() - self.iter.toks().len() }
    /// what parsing an expression leaves alone: everything but the token position and the recorded output reads;
    /// the remaining tokens are a suffix of the previous ones
    spec fn expr_frame(&self, o: &Self) -> bool {
        &&& self.input == o.input && self.signals == o.signals && self.virtual_signals == o.virtual_signals
        &&& self.expected_inputs == o.expected_inputs && self.vars == o.vars
        &&& 0 <= self.consumed(o) && self.iter.toks() =~= o.iter.toks().skip(self.consumed(o))
    }
}

/// every operand of the operator sequence is a well-formed expression
spec fn flat_wf(s: Seq<Tok>) -> bool {
    forall|i: int| 0 <= i < s.len() ==> ((#[trigger] s[i]) matches Tok::A(e) ==> expr_wf(e))
}
spec fn tree_wf_exprs(t: BinOpTree) -> bool { flat_wf(t.flat()) }
proof fn lemma_tree_to_expr_wf(t: BinOpTree)
    requires t.wf(), flat_wf(t.flat())
    ensures expr_wf(t.to_expr())
    decreases t
{
    match t {
        BinOpTree::BinOp { op, left, right } => {
            let l = left.flat(); let r = right.flat(); let f = t.flat();
            assert forall|i: int| 0 <= i < l.len() implies ((#[trigger] l[i]) matches Tok::A(e) ==> expr_wf(e)) by { assert(l[i] == f[i]); }
            assert forall|i: int| 0 <= i < r.len() implies ((#[trigger] r[i]) matches Tok::A(e) ==> expr_wf(e)) by { assert(r[i] == f[l.len() + 1 + i]); }
            lemma_tree_to_expr_wf(*left); lemma_tree_to_expr_wf(*right);
        }
        BinOpTree::Atom(e) => { assert(t.flat()[0] == Tok::A(e)); }
        _ => {}
    }
}
