// ---- parser invariants (C09, C12, C19) ----

/// [A-size] machine arithmetic: the line counter and the column counter of a data row (at most 64 per token) cannot
/// overflow a usize. A text would need more than 2^57 tokens to break this.
spec fn size_ok(line: usize, ntoks: nat) -> bool { line + 64 * ntoks <= usize::MAX }


impl<'a> Parser<'a> {
    /// all tokens of the statement part, the number already consumed, the current token, how many are left
    spec fn all(&self) -> Seq<Token> { self.iter.all() }
    spec fn pos(&self) -> int { self.iter.pos() }
    spec fn cur(&self) -> Token { self.iter.all()[self.iter.pos()] }
    spec fn left(&self) -> nat { (self.iter.all().len() - self.iter.pos()) as nat }
    /// number of tokens consumed since `o`
    spec fn consumed(&self, o: &Self) -> int { self.iter.pos() - o.iter.pos() }
    /// C19: the line counter minus the line breaks consumed so far: the line on which the statement part starts
    spec fn line_base(&self) -> int { self.line - count_eol(self.iter.all(), self.iter.pos()) }

    /// everything but the token position and the line counter is unchanged
    spec fn same_tables(&self, o: &Self) -> bool {
        self.input == o.input && self.signals == o.signals && self.virtual_signals == o.virtual_signals
            && self.expected_inputs == o.expected_inputs && self.expected_outputs == o.expected_outputs && self.vars == o.vars
            && self.iter.all() == o.iter.all()
    }
    /// the token stream is as the lexer contract says and the counters cannot overflow
    spec fn ginv(&self) -> bool {
        &&& 0 <= self.iter.pos() <= self.iter.all().len()
        &&& stream_ok(self.iter.all(), self.input)
        &&& size_ok(self.line, self.left())
    }
    /// additionally Eof has not been consumed and the scope set is well formed
    spec fn pinv(&self) -> bool {
        &&& self.ginv()
        &&& self.iter.pos() < self.iter.all().len()
        &&& self.vars.map.wf()
    }
    /// the state after consuming one token of `o`
    spec fn advanced(&self, o: &Self) -> bool {
        &&& self.same_tables(o)
        &&& 0 <= o.iter.pos() < o.iter.all().len()
        &&& self.iter.pos() == o.iter.pos() + 1
        // C19: the line counter counts the line breaks consumed
        &&& self.line == o.line + (if o.cur().kind == TokenKind::Eol { 1int } else { 0int })
        &&& self.line_base() == o.line_base()
        &&& self.ginv()
        &&& valid_span(o.input, o.cur().span)
        &&& (o.cur().kind != TokenKind::Eof ==> self.iter.pos() < self.iter.all().len() && o.cur().span.end <= self.cur().span.start)
        &&& (o.cur().kind == TokenKind::Eof ==> self.iter.pos() == self.iter.all().len())
    }
    /// what parsing an expression leaves alone: everything but the token position and the recorded output reads
    spec fn expr_frame(&self, o: &Self) -> bool {
        &&& self.input == o.input && self.signals == o.signals && self.virtual_signals == o.virtual_signals
        &&& self.expected_inputs == o.expected_inputs && self.vars == o.vars
        &&& self.tables_grow(o)
        &&& self.iter.all() == o.iter.all() && self.iter.pos() >= o.iter.pos()
        &&& self.line == o.line && self.line_base() == o.line_base()
    }
    /// what parsing a data row leaves alone: everything but the token position and the recorded reads / C columns
    spec fn row_frame(&self, o: &Self) -> bool {
        &&& self.input == o.input && self.signals == o.signals && self.virtual_signals == o.virtual_signals && self.vars == o.vars
        &&& self.tables_grow(o)
        &&& self.iter.all() == o.iter.all() && self.iter.pos() >= o.iter.pos()
        &&& self.line == o.line && self.line_base() == o.line_base()
    }
    /// every recorded declaration carries a location inside the text and a well-formed expression
    spec fn vs_spans_valid(&self) -> bool {
        forall|k: &str| #[trigger] self.virtual_signals@.contains_key(k) ==> valid_span(self.input, self.virtual_signals@[k].0) && expr_wf(self.virtual_signals@[k].1)
    }
    /// names recorded so far stay recorded
    spec fn tables_grow(&self, o: &Self) -> bool {
        &&& forall|k: &str| o.expected_inputs@.contains_key(k) ==> #[trigger] self.expected_inputs@.contains_key(k)
        &&& forall|k: &str| o.expected_outputs@.contains_key(k) ==> #[trigger] self.expected_outputs@.contains_key(k)
        &&& forall|k: &str| o.virtual_signals@.contains_key(k) ==> #[trigger] self.virtual_signals@.contains_key(k)
    }
    /// statement-level invariant
    spec fn sinv(&self) -> bool { self.pinv() && self.vs_spans_valid() }
    /// the scope representation only grew: what `o` held is still there, in place
    spec fn vars_ext(&self, o: &Self) -> bool {
        self.vars.map.values@.len() >= o.vars.map.values@.len() && self.vars.map.values@.take(o.vars.map.values@.len() as int) =~= o.vars.map.values@
    }
    /// what parsing a block leaves alone: the text, the header, the open scopes (a nested block's own scope is gone again)
    spec fn block_frame(&self, o: &Self) -> bool {
        &&& self.input == o.input && self.signals == o.signals
        &&& self.vars.map.wf() && self.vars.map.frame_stack@ == o.vars.map.frame_stack@
        &&& self.vs_spans_valid()
        &&& self.iter.all() == o.iter.all() && self.iter.pos() >= o.iter.pos()
        &&& self.line_base() == o.line_base()
        &&& self.tables_grow(o)
    }
}

/// some key of the map has these contents
spec fn has_name<V>(m: Map<&str, V>, s: Seq<char>) -> bool { m.contains_key(str_of(s)) }
/// C11: column c carries a header name that is recorded as holding a `C`
spec fn rec_pred<V>(m: Map<&str, V>, hdr: Seq<String>) -> spec_fn(int) -> bool {
    |c: int| 0 <= c < hdr.len() && has_name(m, hdr[c]@)
}
proof fn lemma_rec_pred_mono<V>(m1: Map<&str, V>, m2: Map<&str, V>, hdr: Seq<String>)
    requires forall|k: &str| m1.contains_key(k) ==> #[trigger] m2.contains_key(k)
    ensures forall|c: int| 0 <= c < hdr.len() && rec_pred(m1, hdr)(c) ==> #[trigger] rec_pred(m2, hdr)(c)
{
}
/// the C entries of the row so far stand in recorded columns
spec fn c_recorded<V>(data: Seq<DataEntry>, m: Map<&str, V>, hdr: Seq<String>) -> bool {
    forall|i: int| 0 <= i < data.len() && (#[trigger] data[i]) == DataEntry::C && data_width(data.take(i)) < hdr.len()
        ==> has_name(m, hdr[data_width(data.take(i))]@)
}
proof fn lemma_c_recorded_push<V>(data: Seq<DataEntry>, x: DataEntry, m1: Map<&str, V>, m2: Map<&str, V>, hdr: Seq<String>)
    requires
        c_recorded(data, m1, hdr),
        forall|k: &str| m1.contains_key(k) ==> #[trigger] m2.contains_key(k),
        x == DataEntry::C && data_width(data) < hdr.len() ==> has_name(m2, hdr[data_width(data)]@),
    ensures c_recorded(data.push(x), m2, hdr)
{
    let d2 = data.push(x);
    assert forall|i: int| 0 <= i < d2.len() && (#[trigger] d2[i]) == DataEntry::C && data_width(d2.take(i)) < hdr.len()
        implies has_name(m2, hdr[data_width(d2.take(i))]@) by {
        if i < data.len() {
            assert(d2.take(i) =~= data.take(i));
            assert(d2[i] == data[i]);
        } else {
            assert(d2.take(i) =~= data);
        }
    }
}
proof fn lemma_c_recorded_shape<V>(data: Seq<DataEntry>, m: Map<&str, V>, hdr: Seq<String>)
    requires c_recorded(data, m, hdr), data_width(data) == hdr.len()
    ensures data_shape(data, hdr.len() as int, rec_pred(m, hdr))
{
    assert forall|i: int| 0 <= i < data.len() && (#[trigger] data[i]) == DataEntry::C implies rec_pred(m, hdr)(data_width(data.take(i))) by {
        lemma_data_width_take(data, i);
        lemma_data_width_take(data, i + 1);
        lemma_data_width_nonneg(data.take(i));
    }
}

/// C09: every location attached to the error lies within the source text on character boundaries
spec fn spans_valid(e: ParseError, input: &str) -> bool {
    forall|i: int| 0 <= i < e.at@.len() ==> valid_span(input, #[trigger] e.at@[i])
}

/// the binary operator a token kind stands for (C08: ! and ~ are unary only)
spec fn tk_binop(k: TokenKind) -> Option<BinOp> {
    match k {
        TokenKind::Plus => Some(BinOp::Plus), TokenKind::Minus => Some(BinOp::Minus), TokenKind::Times => Some(BinOp::Times),
        TokenKind::Divide => Some(BinOp::Divide), TokenKind::Reminder => Some(BinOp::Reminder), TokenKind::Xor => Some(BinOp::Xor),
        TokenKind::And => Some(BinOp::And), TokenKind::Or => Some(BinOp::Or), TokenKind::ShiftLeft => Some(BinOp::ShiftLeft),
        TokenKind::ShiftRight => Some(BinOp::ShiftRight), TokenKind::Equal => Some(BinOp::Equal), TokenKind::NotEqual => Some(BinOp::NotEqual),
        TokenKind::LessThanOrEqual => Some(BinOp::LessThanOrEqual), TokenKind::GreaterThanOrEqual => Some(BinOp::GreaterThanOrEqual),
        TokenKind::LessThan => Some(BinOp::LessThan), TokenKind::GreaterThan => Some(BinOp::GreaterThan),
        _ => None,
    }
}
spec fn tk_is_number(k: TokenKind) -> bool { k == TokenKind::DecInt || k == TokenKind::HexInt || k == TokenKind::OctInt || k == TokenKind::BinInt }

uninterp spec fn strip2(s: &str) -> &str;
/// [A-std] i64::from_str_radix as a function of the digits and the radix (None: does not fit in 64 bits / not a number)
uninterp spec fn radix_value(digits: &str, radix: u32) -> Option<i64>;

/// C08: decimal, 0x hexadecimal, 0b binary, octal when starting with 0
spec fn lit_value(text: &str, k: TokenKind) -> Option<i64> {
    match k {
        TokenKind::DecInt => radix_value(text, 10),
        TokenKind::HexInt => radix_value(strip2(text), 16),
        TokenKind::OctInt => radix_value(text, 8),
        TokenKind::BinInt => radix_value(strip2(text), 2),
        _ => None,
    }
}

// N9 [A-std]: `&literal[2..]` is emitted as verif_strip_prefix2(literal)
#[verifier::external_body]
fn verif_strip_prefix2(s: &str) -> (r: &str)
    requires has_prefix2(s),
    ensures r == strip2(s),
{
    &s[2..]
}
// [A-std] digits without a sign never parse to a negative number
#[verifier::external_body]
proof fn axiom_unsigned_literal(text: &str, k: TokenKind)
    requires unsigned_text(text, k)
    ensures lit_value(text, k) matches Some(v) ==> v >= 0
{
}
// N9 [A-std]: i64::from_str_radix; panics unless 2 <= radix <= 36
#[verifier::external_body]
fn verif_from_str_radix(s: &str, radix: u32) -> (r: Result<i64, core::num::ParseIntError>)
    requires 2 <= radix <= 36,
    ensures match r { Ok(n) => radix_value(s, radix) == Some(n), Err(_) => radix_value(s, radix) is None },
{
    i64::from_str_radix(s, radix)
}

/// every operand of the operator sequence is a well-formed expression
spec fn flat_wf(s: Seq<Tok>) -> bool {
    forall|i: int| 0 <= i < s.len() ==> ((#[trigger] s[i]) matches Tok::A(e) ==> expr_wf(e))
}
spec fn tree_wf_exprs(t: BinOpTree) -> bool { flat_wf(t.flat()) }
proof fn lemma_tree_to_expr_wf(t: BinOpTree)
    requires t.wf(), flat_wf(t.flat())
    ensures expr_wf(t.to_expr())
    decreases t
{
    match t {
        BinOpTree::BinOp { op, left, right } => {
            let l = left.flat(); let r = right.flat(); let f = t.flat();
            assert forall|i: int| 0 <= i < l.len() implies ((#[trigger] l[i]) matches Tok::A(e) ==> expr_wf(e)) by { assert(l[i] == f[i]); }
            assert forall|i: int| 0 <= i < r.len() implies ((#[trigger] r[i]) matches Tok::A(e) ==> expr_wf(e)) by { assert(r[i] == f[l.len() + 1 + i]); }
            lemma_tree_to_expr_wf(*left); lemma_tree_to_expr_wf(*right);
        }
        BinOpTree::Atom(e) => { assert(t.flat()[0] == Tok::A(e)); }
        _ => {}
    }
}

proof fn lemma_data_width_push(data: Seq<DataEntry>, x: DataEntry)
    ensures data_width(data.push(x)) == data_width(data) + entry_width(x)
{
    assert(data.push(x).drop_last() =~= data);
}

// [A-std] &str obeys the hash-table key model, and a &str is identified with its contents (str_of names the &str with given contents)
uninterp spec fn str_of(s: Seq<char>) -> &'static str;
#[verifier::external_body]
proof fn axiom_str_key_model()
    ensures
        vstd::std_specs::hash::obeys_key_model::<&str>(),
        forall|k: &str| #[trigger] str_of(k@) == k,
        forall|s: Seq<char>| (#[trigger] str_of(s))@ == s,
{
}

/// a block stays well formed when a well-formed statement is appended
proof fn lemma_block_push(b: Seq<Stmt>, s: Stmt, w: int, p: spec_fn(int) -> bool)
    requires stmts_wf(b), stmts_shape(b, w, p), stmt_wf(s), stmt_shape(s, w, p)
    ensures stmts_wf(b.push(s)), stmts_shape(b.push(s), w, p)
{
    assert forall|i: int| 0 <= i < b.push(s).len() implies stmt_wf(#[trigger] b.push(s)[i]) by {
        if i < b.len() { assert(b.push(s)[i] == b[i]); }
    }
    assert forall|i: int| 0 <= i < b.push(s).len() implies stmt_shape(#[trigger] b.push(s)[i], w, p) by {
        if i < b.len() { assert(b.push(s)[i] == b[i]); }
    }
}

impl<'a> HeaderParser<'a> {
    /// the header lexer reads the same text, and the line counter counts the header's line breaks consumed so far
    spec fn hinv(&self) -> bool {
        &&& self.iter.source() == self.input
        &&& 0 <= self.iter.hpos()
        &&& self.iter.hall().len() + 1 < usize::MAX
        // C19: lines are counted from 1, one per line break
        &&& self.line == 1 + count_heol(self.iter.hall(), self.iter.hpos()) // [C19.header.counts-eol]
        &&& self.line <= 1 + self.iter.hpos()
    }
    spec fn hframe(&self, o: &Self) -> bool {
        self.input == o.input && self.iter.hall() == o.iter.hall() && self.iter.hpos() >= o.iter.hpos()
    }
}

/// header names are pairwise distinct
spec fn hdr_distinct(s: Seq<String>) -> bool {
    forall|i: int, j: int| 0 <= i < j < s.len() ==> (#[trigger] s[i])@ != (#[trigger] s[j])@
}

/// (type anchor for `let name = self.iter.slice().into();`, whose type rustc infers only later)
spec fn sv(s: String) -> Seq<char> { s@ }

// ---- Parser::finish (C15: the recorded tables leave the parser in an order that does not depend on hashing) ----

/// es lists every entry of m exactly once
spec fn entries_of<K, V>(m: Map<K, V>, es: Seq<(K, V)>) -> bool {
    &&& forall|i: int| 0 <= i < es.len() ==> m.contains_key((#[trigger] es[i]).0) && m[es[i].0] == es[i].1
    &&& forall|k: K| #[trigger] m.contains_key(k) ==> exists|i: int| 0 <= i < es.len() && (#[trigger] es[i]).0 == k
    &&& forall|i: int, j: int| 0 <= i < j < es.len() ==> (#[trigger] es[i]).0 != (#[trigger] es[j]).0
}

// N7 [A-std]: `m.into_iter().map(f).collect::<Vec<_>>()` on a HashMap: f applied to every entry once, in an unspecified order.
// The body IS the original chain.
#[verifier::external_body]
fn verif_map_entries<K, V, T, F: FnMut((K, V)) -> T>(m: HashMap<K, V>, f: F) -> (r: Vec<T>)
    requires forall|kv: (K, V)| call_requires(f, (kv,)),
    ensures
        exists|es: Seq<(K, V)>| #[trigger] entries_of(m@, es) && r@.len() == es.len()
            && forall|i: int| 0 <= i < es.len() ==> call_ensures(f, (es[i],), #[trigger] r@[i]),
{
    m.into_iter().map(f).collect::<Vec<_>>()
}

// [A-std] slice::sort_by: a permutation in which no element is greater than a later one according to f
pub assume_specification<T, F: FnMut(&T, &T) -> core::cmp::Ordering>[ <[T]>::sort_by ](v: &mut [T], f: F)
    requires forall|a: &T, b: &T| call_requires(f, (a, b)),
    ensures final(v)@.to_multiset() == old(v)@.to_multiset(),
        forall|i: int, j: int| #![trigger final(v)@[i], final(v)@[j]] 0 <= i < j < final(v)@.len()
            ==> exists|o: core::cmp::Ordering| #[trigger] call_ensures(f, (&final(v)@[i], &final(v)@[j]), o) && o != core::cmp::Ordering::Greater;

/// the list holds exactly the entries of the table (names by contents)
spec fn listed<V>(m: Map<&str, V>, l: Seq<(String, V)>) -> bool {
    &&& forall|i: int| 0 <= i < l.len() ==> has_name(m, (#[trigger] l[i]).0@) && m[str_of(l[i].0@)] == l[i].1
    &&& forall|k: &str| #[trigger] m.contains_key(k) ==> exists|i: int| 0 <= i < l.len() && (#[trigger] l[i]).0@ == k@
}
spec fn listed_vs(m: Map<&str, (core::ops::Range<usize>, Expr)>, l: Seq<(VirtualSignal, core::ops::Range<usize>)>) -> bool {
    &&& forall|i: int| 0 <= i < l.len() ==> has_name(m, (#[trigger] l[i]).0.name@) && m[str_of(l[i].0.name@)] == (l[i].1, l[i].0.expr)
    &&& forall|k: &str| #[trigger] m.contains_key(k) ==> exists|i: int| 0 <= i < l.len() && (#[trigger] l[i]).0.name@ == k@
}
/// C15: ordered by where in the text the entry was recorded
spec fn sorted_by_start<T>(l: Seq<(T, core::ops::Range<usize>)>) -> bool {
    forall|i: int, j: int| 0 <= i < j < l.len() ==> (#[trigger] l[i]).1.start <= (#[trigger] l[j]).1.start
}

proof fn lemma_perm_index<T>(a: Seq<T>, b: Seq<T>, i: int) -> (j: int)
    requires a.to_multiset() == b.to_multiset(), 0 <= i < a.len()
    ensures 0 <= j < b.len() && b[j] == a[i]
{
    broadcast use vstd::seq_lib::group_to_multiset_ensures;
    assert(a.contains(a[i]));
    assert(a.to_multiset().count(a[i]) > 0);
    assert(b.contains(a[i]));
    choose|j: int| 0 <= j < b.len() && b[j] == a[i]
}

proof fn lemma_listed<V>(m: Map<&str, V>, es: Seq<(&str, V)>, l0: Seq<(String, V)>, l: Seq<(String, V)>)
    requires
        entries_of(m, es), l0.len() == es.len(),
        forall|i: int| 0 <= i < es.len() ==> (#[trigger] l0[i]).0@ == es[i].0@ && l0[i].1 == es[i].1,
        l0.to_multiset() == l.to_multiset(),
    ensures listed(m, l)
{
    axiom_str_key_model();
    assert forall|i: int| 0 <= i < l.len() implies has_name(m, (#[trigger] l[i]).0@) && m[str_of(l[i].0@)] == l[i].1 by {
        let j = lemma_perm_index(l, l0, i);
        assert(l0[j].0@ == es[j].0@);
        assert(str_of(es[j].0@) == es[j].0);
    }
    assert forall|k: &str| #[trigger] m.contains_key(k) implies exists|i: int| 0 <= i < l.len() && (#[trigger] l[i]).0@ == k@ by {
        let j = choose|j: int| 0 <= j < es.len() && (#[trigger] es[j]).0 == k;
        assert(l0[j].0@ == k@);
        let i = lemma_perm_index(l0, l, j);
        assert(l[i].0@ == k@);
    }
}
proof fn lemma_listed_vs(m: Map<&str, (core::ops::Range<usize>, Expr)>, es: Seq<(&str, (core::ops::Range<usize>, Expr))>,
    l0: Seq<(VirtualSignal, core::ops::Range<usize>)>, l: Seq<(VirtualSignal, core::ops::Range<usize>)>)
    requires
        entries_of(m, es), l0.len() == es.len(),
        forall|i: int| 0 <= i < es.len() ==> (#[trigger] l0[i]).0.name@ == es[i].0@ && l0[i].1 == es[i].1.0 && l0[i].0.expr == es[i].1.1,
        l0.to_multiset() == l.to_multiset(),
    ensures listed_vs(m, l)
{
    axiom_str_key_model();
    assert forall|i: int| 0 <= i < l.len() implies has_name(m, (#[trigger] l[i]).0.name@) && m[str_of(l[i].0.name@)] == (l[i].1, l[i].0.expr) by {
        let j = lemma_perm_index(l, l0, i);
        assert(l0[j].0.name@ == es[j].0@);
        assert(str_of(es[j].0@) == es[j].0);
    }
    assert forall|k: &str| #[trigger] m.contains_key(k) implies exists|i: int| 0 <= i < l.len() && (#[trigger] l[i]).0.name@ == k@ by {
        let j = choose|j: int| 0 <= j < es.len() && (#[trigger] es[j]).0 == k;
        assert(l0[j].0.name@ == k@);
        let i = lemma_perm_index(l0, l, j);
        assert(l[i].0.name@ == k@);
    }
}

impl<'a> Parser<'a> {
    /// (scope contract) same token sequence, further along; the open scopes are the same
    spec fn scope_frame(&self, o: &Self) -> bool {
        &&& self.input == o.input && self.signals == o.signals
        &&& self.iter.all() == o.iter.all() && self.iter.pos() >= o.iter.pos()
        &&& self.vars.map.wf() && self.vars.map.frame_stack@ == o.vars.map.frame_stack@
    }
}
