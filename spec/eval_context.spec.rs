// ---- EvalContext: environment view ----

// N10: the field type RefCell<StdRng> (crate `rand`, not available to single-file Verus) is replaced by this opaque stand-in.
#[verifier::external_body]
struct VerifRng { _opaque: () }

/// the generator freshly seeded with `seed` ([A-rand] StdRng::seed_from_u64 is a function of its argument)
uninterp spec fn rng_fresh(seed: u64) -> VerifRng;

// N10: `RefCell::new(StdRng::seed_from_u64(s))` is emitted as `verif_rng_seeded(s)`
#[verifier::external_body]
fn verif_rng_seeded(seed: u64) -> (r: VerifRng)
    ensures r == rng_fresh(seed),
{
    unimplemented!()
}

impl EvalContext {
    spec fn wf(&self) -> bool { self.vars.wf() && self.alt_vars.wf() }

    /// innermost binding of `name` among the program variables
    spec fn var_of(&self, name: Seq<char>) -> Option<i64> {
        lookup_by(self.vars.values@, |k: String| k@ == name)
    }
    /// value of the output `name` in the most recently stored driver answer
    spec fn out_of(&self, name: Seq<char>) -> Option<OutputValue> { map_out_of(self.outputs@, name) }
    /// C04: a variable of that name takes precedence over the output
    spec fn read(&self, name: Seq<char>) -> Option<OutputValue> {
        match self.var_of(name) {
            Some(n) => Some(OutputValue::Value(n)),
            None => self.out_of(name),
        }
    }
}

proof fn lemma_lookup_by_ext<K, V>(s: Seq<(K, V)>, p: spec_fn(K) -> bool, q: spec_fn(K) -> bool)
    requires forall|k: K| #[trigger] p(k) == q(k)
    ensures lookup_by(s, p) == lookup_by(s, q)
    decreases s.len()
{
    if s.len() > 0 { lemma_lookup_by_ext(s.drop_last(), p, q); }
}

/// smallest index i >= from whose key has the content `name`
spec fn find_name_from(s: Seq<(String, i64)>, from: int, name: Seq<char>) -> Option<int>
    decreases s.len() - from
{
    if from < 0 || from >= s.len() { None }
    else if s[from].0@ == name { Some(from) }
    else { find_name_from(s, from + 1, name) }
}

proof fn lemma_find_name_from(s: Seq<(String, i64)>, from: int, key: String, name: Seq<char>)
    requires key@ == name, forall|a: String, b: String| #[trigger] <String as PartialEqSpec<String>>::eq_spec(&a, &b) == (a@ == b@)
    ensures find_from(s, from, key) == find_name_from(s, from, name)
    decreases s.len() - from
{
    if 0 <= from < s.len() { lemma_find_name_from(s, from + 1, key, name); }
}

// [A-std] <String as Borrow<str>>::borrow preserves the contents
#[verifier::external_body]
proof fn axiom_borrow_string_str()
    ensures forall|k: String| (#[trigger] borrow_spec::<String, str>(&k))@ == k@,
{
}

// [A-std] String::clone yields an equal String
#[verifier::external_body]
proof fn axiom_string_clone()
    ensures forall|a: String, b: String| call_ensures(String::clone, (&a,), b) ==> a == b,
{
}

/// value reported for the output called `name` by a driver answer (a later entry of the same name wins)
spec fn last_output_named(outs: Seq<OutputEntry>, name: Seq<char>) -> Option<OutputValue>
    decreases outs.len()
{
    if outs.len() == 0 { None }
    else if outs.last().signal.name@ == name { Some(outs.last().value) }
    else { last_output_named(outs.drop_last(), name) }
}

spec fn pairs_to_map(s: Seq<(String, OutputValue)>) -> Map<String, OutputValue>
    decreases s.len()
{
    if s.len() == 0 { Map::empty() } else { pairs_to_map(s.drop_last()).insert(s.last().0, s.last().1) }
}

// [A-std] collecting (key, value) pairs into a HashMap inserts them in order (a later pair with an equal key overwrites)
#[verifier::external_body]
proof fn axiom_hashmap_from_iter(s: Seq<(String, OutputValue)>, m: HashMap<String, OutputValue>)
    requires <HashMap<String, OutputValue> as vstd::std_specs::iter::FromIteratorSpec<(String, OutputValue)>>::from_iter_ensures(s, m)
    ensures m@ == pairs_to_map(s)
{
}

spec fn map_out_of(m: Map<String, OutputValue>, name: Seq<char>) -> Option<OutputValue> {
    if exists|k: String| k@ == name && #[trigger] m.contains_key(k) {
        Some(m[choose|k: String| k@ == name && #[trigger] m.contains_key(k)])
    } else { None }
}

proof fn lemma_pairs_to_map(pairs: Seq<(String, OutputValue)>, outs: Seq<OutputEntry>, name: Seq<char>)
    requires
        pairs.len() == outs.len(),
        forall|i: int| 0 <= i < outs.len() ==> (#[trigger] pairs[i]).0@ == outs[i].signal.name@ && pairs[i].1 == outs[i].value,
        forall|s1: String, s2: String| #![trigger s1@, s2@] s1@ == s2@ ==> s1 == s2,
    ensures map_out_of(pairs_to_map(pairs), name) == last_output_named(outs, name)
    decreases pairs.len()
{
    if pairs.len() > 0 {
        let p0 = pairs.drop_last(); let o0 = outs.drop_last();
        assert forall|i: int| 0 <= i < o0.len() implies (#[trigger] p0[i]).0@ == o0[i].signal.name@ && p0[i].1 == o0[i].value by {
            assert(p0[i] == pairs[i]);
        }
        lemma_pairs_to_map(p0, o0, name);
        let m0 = pairs_to_map(p0); let m = pairs_to_map(pairs);
        let kl = pairs.last().0;
        assert(m == m0.insert(kl, pairs.last().1));
        if kl@ == name {
            assert(m.contains_key(kl));
            let k = choose|k: String| k@ == name && #[trigger] m.contains_key(k);
            assert(k == kl);
        } else {
            if exists|k: String| k@ == name && #[trigger] m.contains_key(k) {
                let k = choose|k: String| k@ == name && #[trigger] m.contains_key(k);
                assert(m0.contains_key(k));
                let k0 = choose|k: String| k@ == name && #[trigger] m0.contains_key(k);
                assert(k0 == k);
            } else {
                if exists|k: String| k@ == name && #[trigger] m0.contains_key(k) {
                    let k0 = choose|k: String| k@ == name && #[trigger] m0.contains_key(k);
                    assert(m.contains_key(k0));
                }
            }
        }
    }
}
