// ---- which identifiers a program reads as device outputs (C11, C14, C15): written from the statements ----
// C01: `let` binds in the scope of the innermost enclosing loop / repeat, `while` opens no scope, everything bound inside
// a loop (its counter included) disappears when the loop ends. C11: an identifier read where no variable of that name is
// in scope is an output read. C14: the expression of a `declare` sees no variables.

/// the identifier x occurs in e
spec fn expr_reads(e: Expr, x: Seq<char>) -> bool
    decreases e
{
    match e {
        Expr::Number(n) => false,
        Expr::Variable(name) => name@ == x,
        Expr::BinOp { op, left, right } => expr_reads(*left, x) || expr_reads(*right, x),
        Expr::UnaryOp { op, expr } => expr_reads(*expr, x),
        Expr::Func { name, args } => exists|i: int| #[trigger] wi(i) && 0 <= i < args@.len() && expr_reads(args@[i], x),
    }
}
spec fn entry_reads(d: DataEntry, x: Seq<char>) -> bool {
    match d {
        DataEntry::Expr(e) => expr_reads(e, x),
        DataEntry::Bits { number, expr } => expr_reads(expr, x),
        _ => false,
    }
}
spec fn row_reads(data: Seq<DataEntry>, x: Seq<char>) -> bool {
    exists|i: int| #[trigger] wi(i) && 0 <= i < data.len() && entry_reads(data[i], x)
}

/// the variables in scope after statement s, given those in scope before it
spec fn scope_after(s: Stmt, sc: ISet<Seq<char>>) -> ISet<Seq<char>>
    decreases s, 0int
{
    match s {
        Stmt::Let { name, expr } => sc.insert(name@),
        Stmt::While { condition, inner } => scope_after_block(inner@, sc, inner@.len() as int),
        _ => sc,
    }
}
/// ... after the first n statements of a block
spec fn scope_after_block(ss: Seq<Stmt>, sc: ISet<Seq<char>>, n: int) -> ISet<Seq<char>>
    decreases ss, 1int, n
{
    if n <= 0 || n > ss.len() { sc } else { scope_after(ss[n - 1], scope_after_block(ss, sc, n - 1)) }
}
/// x is read by statement s at a point where no variable x is in scope
spec fn stmt_free(s: Stmt, sc: ISet<Seq<char>>, x: Seq<char>) -> bool
    decreases s, 0int
{
    match s {
        Stmt::Let { name, expr } => expr_reads(expr, x) && !sc.contains(x),
        Stmt::DataRow { data, line } => row_reads(data@, x) && !sc.contains(x),
        Stmt::ResetRandom => false,
        Stmt::Loop { variable, max, inner } => (expr_reads(max, x) && !sc.contains(x)) || block_free(inner@, sc.insert(variable@), x),
        Stmt::While { condition, inner } => (expr_reads(condition, x) && !sc.contains(x)) || block_free(inner@, sc, x),
    }
}
spec fn block_free(ss: Seq<Stmt>, sc: ISet<Seq<char>>, x: Seq<char>) -> bool
    decreases ss, 2int
{
    exists|i: int| #[trigger] wi(i) && 0 <= i < ss.len() && stmt_free(ss[i], scope_after_block(ss, sc, i), x)
}

// ---- the parser's scope set and its table of output reads ----

/// the names the parser currently holds as variables
spec fn scope_of(vars: FramedSet<&str>) -> ISet<Seq<char>> {
    ISet::new(|x: Seq<char>| exists|i: int| 0 <= i < vars.map.values@.len() && (#[trigger] vars.map.values@[i]).0@ == x)
}
// [A-std] <&str as Borrow<str>>::borrow preserves the contents
#[verifier::external_body]
proof fn axiom_borrow_str_str()
    ensures forall|k: &str| (#[trigger] borrow_spec::<&str, str>(&k))@ == k@,
{
}
proof fn lemma_lookup_by_iff<K, V>(s: Seq<(K, V)>, p: spec_fn(K) -> bool)
    ensures lookup_by(s, p) is Some <==> exists|i: int| 0 <= i < s.len() && p((#[trigger] s[i]).0)
    decreases s.len()
{
    if s.len() > 0 {
        lemma_lookup_by_iff(s.drop_last(), p);
        if p(s.last().0) {
            assert(p(s[s.len() - 1].0));
        } else if lookup_by(s.drop_last(), p) is Some {
            let i = choose|i: int| 0 <= i < s.drop_last().len() && p((#[trigger] s.drop_last()[i]).0);
            assert(s[i] == s.drop_last()[i]);
        } else {
            assert forall|i: int| 0 <= i < s.len() implies !p((#[trigger] s[i]).0) by {
                if i < s.len() - 1 { assert(s[i] == s.drop_last()[i]); }
            }
        }
    }
}
/// FramedSet::contains decides membership in scope_of
proof fn lemma_scope_contains(vars: FramedSet<&str>, name: &str)
    ensures (lookup_by(vars.map.values@, key_matches::<&str, str>(name)) is Some) <==> scope_of(vars).contains(name@)
{
    axiom_string_model();
    axiom_borrow_str_str();
    let s = vars.map.values@;
    let p = key_matches::<&str, str>(name);
    lemma_lookup_by_iff(s, p);
    if lookup_by(s, p) is Some {
        let i = choose|i: int| 0 <= i < s.len() && p((#[trigger] s[i]).0);
        assert(s[i].0@ == name@);
    }
    if scope_of(vars).contains(name@) {
        let i = choose|i: int| 0 <= i < s.len() && (#[trigger] s[i]).0@ == name@;
        assert(p(s[i].0));
    }
}

/// the table m1 holds what m0 held plus exactly the names satisfying p
#[verifier::opaque]
spec fn grows_by<V>(m0: Map<&str, V>, m1: Map<&str, V>, p: spec_fn(Seq<char>) -> bool) -> bool {
    forall|x: Seq<char>| #[trigger] has_name(m1, x) <==> (has_name(m0, x) || p(x))
}
proof fn lemma_grows_trans<V>(m0: Map<&str, V>, m1: Map<&str, V>, m2: Map<&str, V>, p: spec_fn(Seq<char>) -> bool, q: spec_fn(Seq<char>) -> bool, r: spec_fn(Seq<char>) -> bool)
    requires grows_by(m0, m1, p), grows_by(m1, m2, q), forall|x: Seq<char>| #[trigger] r(x) <==> (p(x) || q(x))
    ensures grows_by(m0, m2, r)
{
    reveal(grows_by);
    assert forall|x: Seq<char>| #[trigger] has_name(m2, x) <==> (has_name(m0, x) || r(x)) by {
        assert(has_name(m1, x) <==> (has_name(m0, x) || p(x)));
    }
}
proof fn lemma_grows_same<V>(m0: Map<&str, V>, m1: Map<&str, V>, p: spec_fn(Seq<char>) -> bool, q: spec_fn(Seq<char>) -> bool)
    requires grows_by(m0, m1, p), forall|x: Seq<char>| #[trigger] q(x) <==> p(x)
    ensures grows_by(m0, m1, q)
{
    reveal(grows_by);
    assert forall|x: Seq<char>| #[trigger] has_name(m1, x) <==> (has_name(m0, x) || q(x)) by { assert(q(x) <==> p(x)); }
}
/// the predicate "x is read by e outside the scope sc"
spec fn free_in_expr(e: Expr, sc: ISet<Seq<char>>) -> spec_fn(Seq<char>) -> bool { |x: Seq<char>| expr_reads(e, x) && !sc.contains(x) }

/// x occurs in one of the operands of the flat reading
spec fn flat_reads(f: Seq<Tok>, x: Seq<char>) -> bool {
    exists|i: int| #[trigger] wi(i) && 0 <= i < f.len() && (f[i] matches Tok::A(e) && expr_reads(e, x))
}
spec fn flat_free(f: Seq<Tok>, sc: ISet<Seq<char>>) -> spec_fn(Seq<char>) -> bool { |x: Seq<char>| flat_reads(f, x) && !sc.contains(x) }
spec fn args_reads(args: Seq<Expr>, x: Seq<char>) -> bool {
    exists|i: int| #[trigger] wi(i) && 0 <= i < args.len() && expr_reads(args[i], x)
}
spec fn args_free(args: Seq<Expr>, sc: ISet<Seq<char>>) -> spec_fn(Seq<char>) -> bool { |x: Seq<char>| args_reads(args, x) && !sc.contains(x) }
spec fn none_free() -> spec_fn(Seq<char>) -> bool { |x: Seq<char>| false }

proof fn lemma_flat_reads_concat(f: Seq<Tok>, g: Seq<Tok>, x: Seq<char>)
    ensures flat_reads(f + g, x) <==> (flat_reads(f, x) || flat_reads(g, x))
{
    let h = f + g;
    if flat_reads(f, x) {
        let i = choose|i: int| #[trigger] wi(i) && 0 <= i < f.len() && (f[i] matches Tok::A(e) && expr_reads(e, x));
        assert(wi(i) && h[i] == f[i]);
    }
    if flat_reads(g, x) {
        let i = choose|i: int| #[trigger] wi(i) && 0 <= i < g.len() && (g[i] matches Tok::A(e) && expr_reads(e, x));
        assert(wi(f.len() + i) && h[f.len() + i] == g[i]);
    }
    if flat_reads(h, x) {
        let i = choose|i: int| #[trigger] wi(i) && 0 <= i < h.len() && (h[i] matches Tok::A(e) && expr_reads(e, x));
        if i < f.len() { assert(wi(i) && h[i] == f[i]); } else { assert(wi(i - f.len()) && h[i] == g[i - f.len()]); }
    }
}
proof fn lemma_flat_reads_atom(e: Expr, x: Seq<char>)
    ensures flat_reads(seq![Tok::A(e)], x) <==> expr_reads(e, x)
{
    let f = seq![Tok::A(e)];
    if expr_reads(e, x) { assert(wi(0) && f[0] == Tok::A(e)); }
    if flat_reads(f, x) {
        let i = choose|i: int| #[trigger] wi(i) && 0 <= i < f.len() && (f[i] matches Tok::A(e2) && expr_reads(e2, x));
        assert(f[i] == Tok::A(e));
    }
}
proof fn lemma_flat_reads_op(op: BinOp, x: Seq<char>)
    ensures !flat_reads(seq![Tok::O(op)], x)
{
    let f = seq![Tok::O(op)];
    if flat_reads(f, x) {
        let i = choose|i: int| #[trigger] wi(i) && 0 <= i < f.len() && (f[i] matches Tok::A(e2) && expr_reads(e2, x));
        assert(f[i] == Tok::O(op));
    }
}
/// the identifiers of the tree's expression are those of its operands
proof fn lemma_tree_reads(t: BinOpTree, x: Seq<char>)
    requires t.wf()
    ensures expr_reads(t.to_expr(), x) <==> flat_reads(t.flat(), x)
    decreases t
{
    match t {
        BinOpTree::Atom(e) => { lemma_flat_reads_atom(e, x); }
        BinOpTree::BinOp { op, left, right } => {
            lemma_tree_reads(*left, x); lemma_tree_reads(*right, x);
            lemma_flat_reads_concat(left.flat() + seq![Tok::O(op)], right.flat(), x);
            lemma_flat_reads_concat(left.flat(), seq![Tok::O(op)], x);
            lemma_flat_reads_op(op, x);
        }
        BinOpTree::Dummy => {}
    }
}
proof fn lemma_flat_free_push(f: Seq<Tok>, f2: Seq<Tok>, op: BinOp, e: Expr, sc: ISet<Seq<char>>)
    requires f2 == f + seq![Tok::O(op), Tok::A(e)]
    ensures forall|x: Seq<char>| #[trigger] flat_free(f2, sc)(x) <==> (flat_free(f, sc)(x) || free_in_expr(e, sc)(x))
{
    assert forall|x: Seq<char>| #[trigger] flat_free(f2, sc)(x) <==> (flat_free(f, sc)(x) || free_in_expr(e, sc)(x)) by {
        assert(seq![Tok::O(op), Tok::A(e)] =~= seq![Tok::O(op)] + seq![Tok::A(e)]);
        lemma_flat_reads_concat(f, seq![Tok::O(op), Tok::A(e)], x);
        lemma_flat_reads_concat(seq![Tok::O(op)], seq![Tok::A(e)], x);
        lemma_flat_reads_op(op, x);
        lemma_flat_reads_atom(e, x);
    }
}
proof fn lemma_flat_free_first(f1: Seq<Tok>, e: Expr, sc: ISet<Seq<char>>)
    requires f1 == seq![Tok::A(e)]
    ensures forall|x: Seq<char>| #[trigger] flat_free(f1, sc)(x) <==> free_in_expr(e, sc)(x)
{
    assert forall|x: Seq<char>| #[trigger] flat_free(f1, sc)(x) <==> free_in_expr(e, sc)(x) by { lemma_flat_reads_atom(e, x); }
}
proof fn lemma_tree_free(t: BinOpTree, sc: ISet<Seq<char>>)
    requires t.wf()
    ensures forall|x: Seq<char>| #[trigger] free_in_expr(t.to_expr(), sc)(x) <==> flat_free(t.flat(), sc)(x)
{
    assert forall|x: Seq<char>| #[trigger] free_in_expr(t.to_expr(), sc)(x) <==> flat_free(t.flat(), sc)(x) by { lemma_tree_reads(t, x); }
}
proof fn lemma_args_free_push(args: Seq<Expr>, e: Expr, sc: ISet<Seq<char>>)
    ensures forall|x: Seq<char>| #[trigger] args_free(args.push(e), sc)(x) <==> (args_free(args, sc)(x) || free_in_expr(e, sc)(x))
{
    let a2 = args.push(e);
    assert forall|x: Seq<char>| #[trigger] args_free(a2, sc)(x) <==> (args_free(args, sc)(x) || free_in_expr(e, sc)(x)) by {
        if args_reads(args, x) {
            let i = choose|i: int| #[trigger] wi(i) && 0 <= i < args.len() && expr_reads(args[i], x);
            assert(wi(i) && a2[i] == args[i]);
        }
        if expr_reads(e, x) { assert(wi(args.len() as int) && a2[args.len() as int] == e); }
        if args_reads(a2, x) {
            let i = choose|i: int| #[trigger] wi(i) && 0 <= i < a2.len() && expr_reads(a2[i], x);
            if i < args.len() { assert(wi(i) && a2[i] == args[i]); } else { assert(a2[i] == e); }
        }
    }
}
proof fn lemma_grows_refl<V>(m: Map<&str, V>)
    ensures grows_by(m, m, none_free())
{
    reveal(grows_by);
}
/// reading the identifier `name`: recorded unless a variable of that name is in scope
proof fn lemma_grows_var<V>(m0: Map<&str, V>, m1: Map<&str, V>, name: &str, nm: String, sc: ISet<Seq<char>>, v: V)
    requires nm@ == name@, sc.contains(name@) ==> m1 == m0,
        !sc.contains(name@) ==> m1 =~= (if m0.contains_key(name) { m0 } else { m0.insert(name, v) }),
    ensures grows_by(m0, m1, free_in_expr(Expr::Variable(nm), sc))
{
    reveal(grows_by);
    axiom_str_key_model();
    assert forall|x: Seq<char>| #[trigger] has_name(m1, x) <==> (has_name(m0, x) || free_in_expr(Expr::Variable(nm), sc)(x)) by {
        assert(str_of(name@) == name);
        assert(str_of(x)@ == x);
    }
}
/// what a table that grew by p holds, it held before or p holds
proof fn lemma_grows_elim<V>(m0: Map<&str, V>, m1: Map<&str, V>, p: spec_fn(Seq<char>) -> bool, x: Seq<char>)
    requires grows_by(m0, m1, p)
    ensures has_name(m1, x) <==> (has_name(m0, x) || p(x))
{
    reveal(grows_by);
}

spec fn entry_free(d: DataEntry, sc: ISet<Seq<char>>) -> spec_fn(Seq<char>) -> bool { |x: Seq<char>| entry_reads(d, x) && !sc.contains(x) }
spec fn row_free(data: Seq<DataEntry>, sc: ISet<Seq<char>>) -> spec_fn(Seq<char>) -> bool { |x: Seq<char>| row_reads(data, x) && !sc.contains(x) }
proof fn lemma_row_free_push(data: Seq<DataEntry>, d: DataEntry, sc: ISet<Seq<char>>)
    ensures forall|x: Seq<char>| #[trigger] row_free(data.push(d), sc)(x) <==> (row_free(data, sc)(x) || entry_free(d, sc)(x))
{
    let d2 = data.push(d);
    assert forall|x: Seq<char>| #[trigger] row_free(d2, sc)(x) <==> (row_free(data, sc)(x) || entry_free(d, sc)(x)) by {
        if row_reads(data, x) {
            let i = choose|i: int| #[trigger] wi(i) && 0 <= i < data.len() && entry_reads(data[i], x);
            assert(wi(i) && d2[i] == data[i]);
        }
        if entry_reads(d, x) { assert(wi(data.len() as int) && d2[data.len() as int] == d); }
        if row_reads(d2, x) {
            let i = choose|i: int| #[trigger] wi(i) && 0 <= i < d2.len() && entry_reads(d2[i], x);
            if i < data.len() { assert(wi(i) && d2[i] == data[i]); } else { assert(d2[i] == d); }
        }
    }
}
/// the table after one more entry of the row
proof fn lemma_row_grows<V>(m0: Map<&str, V>, mi: Map<&str, V>, m1: Map<&str, V>, data: Seq<DataEntry>, d: DataEntry, sc: ISet<Seq<char>>)
    requires
        grows_by(m0, mi, row_free(data, sc)),
        match d {
            DataEntry::Expr(e) => grows_by(mi, m1, free_in_expr(e, sc)),
            DataEntry::Bits { number, expr } => grows_by(mi, m1, free_in_expr(expr, sc)),
            _ => m1 == mi,
        },
    ensures grows_by(m0, m1, row_free(data.push(d), sc))
{
    match d {
        DataEntry::Expr(e) => { lemma_grows_same(mi, m1, free_in_expr(e, sc), entry_free(d, sc)); }
        DataEntry::Bits { number, expr } => { lemma_grows_same(mi, m1, free_in_expr(expr, sc), entry_free(d, sc)); }
        _ => { lemma_grows_refl(mi); lemma_grows_same(mi, m1, none_free(), entry_free(d, sc)); }
    }
    lemma_row_free_push(data, d, sc);
    lemma_grows_trans(m0, mi, m1, row_free(data, sc), entry_free(d, sc), row_free(data.push(d), sc));
}
proof fn lemma_row_grows_start<V>(m0: Map<&str, V>, sc: ISet<Seq<char>>)
    ensures grows_by(m0, m0, row_free(Seq::<DataEntry>::empty(), sc))
{
    lemma_grows_refl(m0);
    lemma_grows_same(m0, m0, none_free(), row_free(Seq::<DataEntry>::empty(), sc));
}
