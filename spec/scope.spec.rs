// ---- which identifiers a program reads as device outputs (C11, C14, C15): written from the statements ----
// C01: `let` binds in the scope of the innermost enclosing loop / repeat, `while` opens no scope, everything bound inside
// a loop (its counter included) disappears when the loop ends. C11: an identifier read where no variable of that name is
// in scope is an output read. C14: the expression of a `declare` sees no variables.

/// the identifier x occurs in e
spec fn expr_reads(e: Expr, x: Seq<char>) -> bool
    decreases e
{
    match e {
        Expr::Number(n) => false,
        Expr::Variable(name) => name@ == x,
        Expr::BinOp { op, left, right } => expr_reads(*left, x) || expr_reads(*right, x),
        Expr::UnaryOp { op, expr } => expr_reads(*expr, x),
        Expr::Func { name, args } => exists|i: int| #[trigger] wi(i) && 0 <= i < args@.len() && expr_reads(args@[i], x),
    }
}
spec fn entry_reads(d: DataEntry, x: Seq<char>) -> bool {
    match d {
        DataEntry::Expr(e) => expr_reads(e, x),
        DataEntry::Bits { number, expr } => expr_reads(expr, x),
        _ => false,
    }
}
spec fn row_reads(data: Seq<DataEntry>, x: Seq<char>) -> bool {
    exists|i: int| #[trigger] wi(i) && 0 <= i < data.len() && entry_reads(data[i], x)
}

/// the variables in scope after statement s, given those in scope before it
spec fn scope_after(s: Stmt, sc: Set<Seq<char>>) -> Set<Seq<char>>
    decreases s, 0int
{
    match s {
        Stmt::Let { name, expr } => sc.insert(name@),
        Stmt::While { condition, inner } => scope_after_block(inner@, sc, inner@.len() as int),
        _ => sc,
    }
}
/// ... after the first n statements of a block
spec fn scope_after_block(ss: Seq<Stmt>, sc: Set<Seq<char>>, n: int) -> Set<Seq<char>>
    decreases ss, 1int, n
{
    if n <= 0 || n > ss.len() { sc } else { scope_after(ss[n - 1], scope_after_block(ss, sc, n - 1)) }
}
/// x is read by statement s at a point where no variable x is in scope
spec fn stmt_free(s: Stmt, sc: Set<Seq<char>>, x: Seq<char>) -> bool
    decreases s, 0int
{
    match s {
        Stmt::Let { name, expr } => expr_reads(expr, x) && !sc.contains(x),
        Stmt::DataRow { data, line } => row_reads(data@, x) && !sc.contains(x),
        Stmt::ResetRandom => false,
        Stmt::Loop { variable, max, inner } => (expr_reads(max, x) && !sc.contains(x)) || block_free(inner@, sc.insert(variable@), x),
        Stmt::While { condition, inner } => (expr_reads(condition, x) && !sc.contains(x)) || block_free(inner@, sc, x),
    }
}
spec fn block_free(ss: Seq<Stmt>, sc: Set<Seq<char>>, x: Seq<char>) -> bool
    decreases ss, 2int
{
    exists|i: int| #[trigger] wi(i) && 0 <= i < ss.len() && stmt_free(ss[i], scope_after_block(ss, sc, i), x)
}
