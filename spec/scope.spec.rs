// ---- which identifiers a program reads as device outputs (C11, C14, C15): written from the statements ----
// C01: `let` binds in the scope of the innermost enclosing loop / repeat, `while` opens no scope, everything bound inside
// a loop (its counter included) disappears when the loop ends. C11: an identifier read where no variable of that name is
// in scope is an output read. C14: the expression of a `declare` sees no variables.

/// the identifier x occurs in e
spec fn expr_reads(e: Expr, x: Seq<char>) -> bool
    decreases e
{
    match e {
        Expr::Number(n) => false,
        Expr::Variable(name) => name@ == x,
        Expr::BinOp { op, left, right } => expr_reads(*left, x) || expr_reads(*right, x),
        Expr::UnaryOp { op, expr } => expr_reads(*expr, x),
        Expr::Func { name, args } => exists|i: int| #[trigger] wi(i) && 0 <= i < args@.len() && expr_reads(args@[i], x),
    }
}
spec fn entry_reads(d: DataEntry, x: Seq<char>) -> bool {
    match d {
        DataEntry::Expr(e) => expr_reads(e, x),
        DataEntry::Bits { number, expr } => expr_reads(expr, x),
        _ => false,
    }
}
spec fn row_reads(data: Seq<DataEntry>, x: Seq<char>) -> bool {
    exists|i: int| #[trigger] wi(i) && 0 <= i < data.len() && entry_reads(data[i], x)
}

/// the variables in scope after statement s, given those in scope before it
spec fn scope_after(s: Stmt, sc: ISet<Seq<char>>) -> ISet<Seq<char>>
    decreases s, 0int
{
    match s {
        Stmt::Let { name, expr } => sc.insert(name@),
        Stmt::While { condition, inner } => scope_after_block(inner@, sc, inner@.len() as int),
        _ => sc,
    }
}
/// ... after the first n statements of a block
spec fn scope_after_block(ss: Seq<Stmt>, sc: ISet<Seq<char>>, n: int) -> ISet<Seq<char>>
    decreases ss, 1int, n
{
    if n <= 0 || n > ss.len() { sc } else { scope_after(ss[n - 1], scope_after_block(ss, sc, n - 1)) }
}
/// x is read by statement s at a point where no variable x is in scope
spec fn stmt_free(s: Stmt, sc: ISet<Seq<char>>, x: Seq<char>) -> bool
    decreases s, 0int
{
    match s {
        Stmt::Let { name, expr } => expr_reads(expr, x) && !sc.contains(x),
        Stmt::DataRow { data, line } => row_reads(data@, x) && !sc.contains(x),
        Stmt::ResetRandom => false,
        Stmt::Loop { variable, max, inner } => (expr_reads(max, x) && !sc.contains(x)) || block_free(inner@, sc.insert(variable@), x),
        Stmt::While { condition, inner } => (expr_reads(condition, x) && !sc.contains(x)) || block_free(inner@, sc, x),
    }
}
spec fn block_free(ss: Seq<Stmt>, sc: ISet<Seq<char>>, x: Seq<char>) -> bool
    decreases ss, 2int
{
    exists|i: int| #[trigger] wi(i) && 0 <= i < ss.len() && stmt_free(ss[i], scope_after_block(ss, sc, i), x)
}

// ---- the parser's scope set and its table of output reads ----

/// the names the parser currently holds as variables
spec fn scope_of(vars: FramedSet<&str>) -> ISet<Seq<char>> {
    ISet::new(|x: Seq<char>| exists|i: int| 0 <= i < vars.map.values@.len() && (#[trigger] vars.map.values@[i]).0@ == x)
}
// [A-std] <&str as Borrow<str>>::borrow preserves the contents
#[verifier::external_body]
proof fn axiom_borrow_str_str()
    ensures forall|k: &str| (#[trigger] borrow_spec::<&str, str>(&k))@ == k@,
{
}
proof fn lemma_lookup_by_iff<K, V>(s: Seq<(K, V)>, p: spec_fn(K) -> bool)
    ensures lookup_by(s, p) is Some <==> exists|i: int| 0 <= i < s.len() && p((#[trigger] s[i]).0)
    decreases s.len()
{
    if s.len() > 0 {
        lemma_lookup_by_iff(s.drop_last(), p);
        if p(s.last().0) {
            assert(p(s[s.len() - 1].0));
        } else if lookup_by(s.drop_last(), p) is Some {
            let i = choose|i: int| 0 <= i < s.drop_last().len() && p((#[trigger] s.drop_last()[i]).0);
            assert(s[i] == s.drop_last()[i]);
        } else {
            assert forall|i: int| 0 <= i < s.len() implies !p((#[trigger] s[i]).0) by {
                if i < s.len() - 1 { assert(s[i] == s.drop_last()[i]); }
            }
        }
    }
}
/// FramedSet::contains decides membership in scope_of
proof fn lemma_scope_contains(vars: FramedSet<&str>, name: &str)
    ensures (lookup_by(vars.map.values@, key_matches::<&str, str>(name)) is Some) <==> scope_of(vars).contains(name@)
{
    axiom_string_model();
    axiom_borrow_str_str();
    let s = vars.map.values@;
    let p = key_matches::<&str, str>(name);
    lemma_lookup_by_iff(s, p);
    if lookup_by(s, p) is Some {
        let i = choose|i: int| 0 <= i < s.len() && p((#[trigger] s[i]).0);
        assert(s[i].0@ == name@);
    }
    if scope_of(vars).contains(name@) {
        let i = choose|i: int| 0 <= i < s.len() && (#[trigger] s[i]).0@ == name@;
        assert(p(s[i].0));
    }
}

/// the table m1 holds what m0 held plus exactly the names satisfying p
#[verifier::opaque]
spec fn grows_by<V>(m0: Map<&str, V>, m1: Map<&str, V>, p: spec_fn(Seq<char>) -> bool) -> bool {
    forall|x: Seq<char>| #[trigger] has_name(m1, x) <==> (has_name(m0, x) || p(x))
}
proof fn lemma_grows_trans<V>(m0: Map<&str, V>, m1: Map<&str, V>, m2: Map<&str, V>, p: spec_fn(Seq<char>) -> bool, q: spec_fn(Seq<char>) -> bool, r: spec_fn(Seq<char>) -> bool)
    requires grows_by(m0, m1, p), grows_by(m1, m2, q), forall|x: Seq<char>| #[trigger] r(x) <==> (p(x) || q(x))
    ensures grows_by(m0, m2, r)
{
    reveal(grows_by);
    assert forall|x: Seq<char>| #[trigger] has_name(m2, x) <==> (has_name(m0, x) || r(x)) by {
        assert(has_name(m1, x) <==> (has_name(m0, x) || p(x)));
    }
}
proof fn lemma_grows_same<V>(m0: Map<&str, V>, m1: Map<&str, V>, p: spec_fn(Seq<char>) -> bool, q: spec_fn(Seq<char>) -> bool)
    requires grows_by(m0, m1, p), forall|x: Seq<char>| #[trigger] q(x) <==> p(x)
    ensures grows_by(m0, m1, q)
{
    reveal(grows_by);
    assert forall|x: Seq<char>| #[trigger] has_name(m1, x) <==> (has_name(m0, x) || q(x)) by { assert(q(x) <==> p(x)); }
}
/// the predicate "x is read by e outside the scope sc"
spec fn free_in_expr(e: Expr, sc: ISet<Seq<char>>) -> spec_fn(Seq<char>) -> bool { |x: Seq<char>| expr_reads(e, x) && !sc.contains(x) }

/// x occurs in one of the operands of the flat reading
spec fn flat_reads(f: Seq<Tok>, x: Seq<char>) -> bool {
    exists|i: int| #[trigger] wi(i) && 0 <= i < f.len() && (f[i] matches Tok::A(e) && expr_reads(e, x))
}
spec fn flat_free(f: Seq<Tok>, sc: ISet<Seq<char>>) -> spec_fn(Seq<char>) -> bool { |x: Seq<char>| flat_reads(f, x) && !sc.contains(x) }
spec fn args_reads(args: Seq<Expr>, x: Seq<char>) -> bool {
    exists|i: int| #[trigger] wi(i) && 0 <= i < args.len() && expr_reads(args[i], x)
}
spec fn args_free(args: Seq<Expr>, sc: ISet<Seq<char>>) -> spec_fn(Seq<char>) -> bool { |x: Seq<char>| args_reads(args, x) && !sc.contains(x) }
spec fn none_free() -> spec_fn(Seq<char>) -> bool { |x: Seq<char>| false }

proof fn lemma_flat_reads_concat(f: Seq<Tok>, g: Seq<Tok>, x: Seq<char>)
    ensures flat_reads(f + g, x) <==> (flat_reads(f, x) || flat_reads(g, x))
{
    let h = f + g;
    if flat_reads(f, x) {
        let i = choose|i: int| #[trigger] wi(i) && 0 <= i < f.len() && (f[i] matches Tok::A(e) && expr_reads(e, x));
        assert(wi(i) && h[i] == f[i]);
    }
    if flat_reads(g, x) {
        let i = choose|i: int| #[trigger] wi(i) && 0 <= i < g.len() && (g[i] matches Tok::A(e) && expr_reads(e, x));
        assert(wi(f.len() + i) && h[f.len() + i] == g[i]);
    }
    if flat_reads(h, x) {
        let i = choose|i: int| #[trigger] wi(i) && 0 <= i < h.len() && (h[i] matches Tok::A(e) && expr_reads(e, x));
        if i < f.len() { assert(wi(i) && h[i] == f[i]); } else { assert(wi(i - f.len()) && h[i] == g[i - f.len()]); }
    }
}
proof fn lemma_flat_reads_atom(e: Expr, x: Seq<char>)
    ensures flat_reads(seq![Tok::A(e)], x) <==> expr_reads(e, x)
{
    let f = seq![Tok::A(e)];
    if expr_reads(e, x) { assert(wi(0) && f[0] == Tok::A(e)); }
    if flat_reads(f, x) {
        let i = choose|i: int| #[trigger] wi(i) && 0 <= i < f.len() && (f[i] matches Tok::A(e2) && expr_reads(e2, x));
        assert(f[i] == Tok::A(e));
    }
}
proof fn lemma_flat_reads_op(op: BinOp, x: Seq<char>)
    ensures !flat_reads(seq![Tok::O(op)], x)
{
    let f = seq![Tok::O(op)];
    if flat_reads(f, x) {
        let i = choose|i: int| #[trigger] wi(i) && 0 <= i < f.len() && (f[i] matches Tok::A(e2) && expr_reads(e2, x));
        assert(f[i] == Tok::O(op));
    }
}
/// the identifiers of the tree's expression are those of its operands
proof fn lemma_tree_reads(t: BinOpTree, x: Seq<char>)
    requires t.wf()
    ensures expr_reads(t.to_expr(), x) <==> flat_reads(t.flat(), x)
    decreases t
{
    match t {
        BinOpTree::Atom(e) => { lemma_flat_reads_atom(e, x); }
        BinOpTree::BinOp { op, left, right } => {
            lemma_tree_reads(*left, x); lemma_tree_reads(*right, x);
            lemma_flat_reads_concat(left.flat() + seq![Tok::O(op)], right.flat(), x);
            lemma_flat_reads_concat(left.flat(), seq![Tok::O(op)], x);
            lemma_flat_reads_op(op, x);
        }
        BinOpTree::Dummy => {}
    }
}
proof fn lemma_flat_free_push(f: Seq<Tok>, f2: Seq<Tok>, op: BinOp, e: Expr, sc: ISet<Seq<char>>)
    requires f2 == f + seq![Tok::O(op), Tok::A(e)]
    ensures forall|x: Seq<char>| #[trigger] flat_free(f2, sc)(x) <==> (flat_free(f, sc)(x) || free_in_expr(e, sc)(x))
{
    assert forall|x: Seq<char>| #[trigger] flat_free(f2, sc)(x) <==> (flat_free(f, sc)(x) || free_in_expr(e, sc)(x)) by {
        assert(seq![Tok::O(op), Tok::A(e)] =~= seq![Tok::O(op)] + seq![Tok::A(e)]);
        lemma_flat_reads_concat(f, seq![Tok::O(op), Tok::A(e)], x);
        lemma_flat_reads_concat(seq![Tok::O(op)], seq![Tok::A(e)], x);
        lemma_flat_reads_op(op, x);
        lemma_flat_reads_atom(e, x);
    }
}
proof fn lemma_flat_free_first(f1: Seq<Tok>, e: Expr, sc: ISet<Seq<char>>)
    requires f1 == seq![Tok::A(e)]
    ensures forall|x: Seq<char>| #[trigger] flat_free(f1, sc)(x) <==> free_in_expr(e, sc)(x)
{
    assert forall|x: Seq<char>| #[trigger] flat_free(f1, sc)(x) <==> free_in_expr(e, sc)(x) by { lemma_flat_reads_atom(e, x); }
}
proof fn lemma_tree_free(t: BinOpTree, sc: ISet<Seq<char>>)
    requires t.wf()
    ensures forall|x: Seq<char>| #[trigger] free_in_expr(t.to_expr(), sc)(x) <==> flat_free(t.flat(), sc)(x)
{
    assert forall|x: Seq<char>| #[trigger] free_in_expr(t.to_expr(), sc)(x) <==> flat_free(t.flat(), sc)(x) by { lemma_tree_reads(t, x); }
}
proof fn lemma_args_free_push(args: Seq<Expr>, e: Expr, sc: ISet<Seq<char>>)
    ensures forall|x: Seq<char>| #[trigger] args_free(args.push(e), sc)(x) <==> (args_free(args, sc)(x) || free_in_expr(e, sc)(x))
{
    let a2 = args.push(e);
    assert forall|x: Seq<char>| #[trigger] args_free(a2, sc)(x) <==> (args_free(args, sc)(x) || free_in_expr(e, sc)(x)) by {
        if args_reads(args, x) {
            let i = choose|i: int| #[trigger] wi(i) && 0 <= i < args.len() && expr_reads(args[i], x);
            assert(wi(i) && a2[i] == args[i]);
        }
        if expr_reads(e, x) { assert(wi(args.len() as int) && a2[args.len() as int] == e); }
        if args_reads(a2, x) {
            let i = choose|i: int| #[trigger] wi(i) && 0 <= i < a2.len() && expr_reads(a2[i], x);
            if i < args.len() { assert(wi(i) && a2[i] == args[i]); } else { assert(a2[i] == e); }
        }
    }
}
proof fn lemma_grows_refl<V>(m: Map<&str, V>)
    ensures grows_by(m, m, none_free())
{
    reveal(grows_by);
}
/// reading the identifier `name`: recorded unless a variable of that name is in scope
proof fn lemma_grows_var<V>(m0: Map<&str, V>, m1: Map<&str, V>, name: &str, nm: String, sc: ISet<Seq<char>>, v: V)
    requires nm@ == name@, sc.contains(name@) ==> m1 == m0,
        !sc.contains(name@) ==> m1 =~= (if m0.contains_key(name) { m0 } else { m0.insert(name, v) }),
    ensures grows_by(m0, m1, free_in_expr(Expr::Variable(nm), sc))
{
    reveal(grows_by);
    axiom_str_key_model();
    assert forall|x: Seq<char>| #[trigger] has_name(m1, x) <==> (has_name(m0, x) || free_in_expr(Expr::Variable(nm), sc)(x)) by {
        assert(str_of(name@) == name);
        assert(str_of(x)@ == x);
    }
}
/// what a table that grew by p holds, it held before or p holds
proof fn lemma_grows_elim<V>(m0: Map<&str, V>, m1: Map<&str, V>, p: spec_fn(Seq<char>) -> bool, x: Seq<char>)
    requires grows_by(m0, m1, p)
    ensures has_name(m1, x) <==> (has_name(m0, x) || p(x))
{
    reveal(grows_by);
}

spec fn entry_free(d: DataEntry, sc: ISet<Seq<char>>) -> spec_fn(Seq<char>) -> bool { |x: Seq<char>| entry_reads(d, x) && !sc.contains(x) }
spec fn row_free(data: Seq<DataEntry>, sc: ISet<Seq<char>>) -> spec_fn(Seq<char>) -> bool { |x: Seq<char>| row_reads(data, x) && !sc.contains(x) }
proof fn lemma_row_free_push(data: Seq<DataEntry>, d: DataEntry, sc: ISet<Seq<char>>)
    ensures forall|x: Seq<char>| #[trigger] row_free(data.push(d), sc)(x) <==> (row_free(data, sc)(x) || entry_free(d, sc)(x))
{
    let d2 = data.push(d);
    assert forall|x: Seq<char>| #[trigger] row_free(d2, sc)(x) <==> (row_free(data, sc)(x) || entry_free(d, sc)(x)) by {
        if row_reads(data, x) {
            let i = choose|i: int| #[trigger] wi(i) && 0 <= i < data.len() && entry_reads(data[i], x);
            assert(wi(i) && d2[i] == data[i]);
        }
        if entry_reads(d, x) { assert(wi(data.len() as int) && d2[data.len() as int] == d); }
        if row_reads(d2, x) {
            let i = choose|i: int| #[trigger] wi(i) && 0 <= i < d2.len() && entry_reads(d2[i], x);
            if i < data.len() { assert(wi(i) && d2[i] == data[i]); } else { assert(d2[i] == d); }
        }
    }
}
/// the table after one more entry of the row
proof fn lemma_row_grows<V>(m0: Map<&str, V>, mi: Map<&str, V>, m1: Map<&str, V>, data: Seq<DataEntry>, d: DataEntry, sc: ISet<Seq<char>>)
    requires
        grows_by(m0, mi, row_free(data, sc)),
        match d {
            DataEntry::Expr(e) => grows_by(mi, m1, free_in_expr(e, sc)),
            DataEntry::Bits { number, expr } => grows_by(mi, m1, free_in_expr(expr, sc)),
            _ => m1 == mi,
        },
    ensures grows_by(m0, m1, row_free(data.push(d), sc))
{
    match d {
        DataEntry::Expr(e) => { lemma_grows_same(mi, m1, free_in_expr(e, sc), entry_free(d, sc)); }
        DataEntry::Bits { number, expr } => { lemma_grows_same(mi, m1, free_in_expr(expr, sc), entry_free(d, sc)); }
        _ => { lemma_grows_refl(mi); lemma_grows_same(mi, m1, none_free(), entry_free(d, sc)); }
    }
    lemma_row_free_push(data, d, sc);
    lemma_grows_trans(m0, mi, m1, row_free(data, sc), entry_free(d, sc), row_free(data.push(d), sc));
}
proof fn lemma_row_grows_start<V>(m0: Map<&str, V>, sc: ISet<Seq<char>>)
    ensures grows_by(m0, m0, row_free(Seq::<DataEntry>::empty(), sc))
{
    lemma_grows_refl(m0);
    lemma_grows_same(m0, m0, none_free(), row_free(Seq::<DataEntry>::empty(), sc));
}

// ---- blocks: scope evolution, free reads, declarations ----

/// the declarations table only grows, and what it held is kept
spec fn vs_ext(v0: Map<&str, (core::ops::Range<usize>, Expr)>, v1: Map<&str, (core::ops::Range<usize>, Expr)>) -> bool {
    forall|k: &str| #[trigger] v0.contains_key(k) ==> v1.contains_key(k) && v1[k] == v0[k]
}
/// x is read by the expression of a declaration added between v0 and v1 (C14: a declared expression sees no variables,
/// so every identifier in it is an output read)
spec fn decl_reads(v0: Map<&str, (core::ops::Range<usize>, Expr)>, v1: Map<&str, (core::ops::Range<usize>, Expr)>, x: Seq<char>) -> bool {
    exists|k: &str| #[trigger] v1.contains_key(k) && !v0.contains_key(k) && expr_reads(v1[k].1, x)
}
/// the output reads of a block: free reads of its statements, and everything its declarations read
spec fn blkp(ss: Seq<Stmt>, sc0: ISet<Seq<char>>, v0: Map<&str, (core::ops::Range<usize>, Expr)>, v1: Map<&str, (core::ops::Range<usize>, Expr)>) -> spec_fn(Seq<char>) -> bool {
    |x: Seq<char>| block_free(ss, sc0, x) || decl_reads(v0, v1, x)
}

proof fn lemma_scope_after_block_push(ss: Seq<Stmt>, s: Stmt, sc0: ISet<Seq<char>>, n: int)
    requires 0 <= n <= ss.len()
    ensures scope_after_block(ss.push(s), sc0, n) == scope_after_block(ss, sc0, n)
    decreases n
{
    if n > 0 {
        lemma_scope_after_block_push(ss, s, sc0, n - 1);
        assert(ss.push(s)[n - 1] == ss[n - 1]);
    }
}
proof fn lemma_scope_after_push(ss: Seq<Stmt>, s: Stmt, sc0: ISet<Seq<char>>)
    ensures scope_after_block(ss.push(s), sc0, ss.len() as int + 1) == scope_after(s, scope_after_block(ss, sc0, ss.len() as int))
{
    lemma_scope_after_block_push(ss, s, sc0, ss.len() as int);
    assert(ss.push(s)[ss.len() as int] == s);
}
proof fn lemma_block_free_push(ss: Seq<Stmt>, s: Stmt, sc0: ISet<Seq<char>>, x: Seq<char>)
    ensures block_free(ss.push(s), sc0, x) <==> (block_free(ss, sc0, x) || stmt_free(s, scope_after_block(ss, sc0, ss.len() as int), x))
{
    let s2 = ss.push(s);
    let n = ss.len() as int;
    if block_free(ss, sc0, x) {
        let i = choose|i: int| #[trigger] wi(i) && 0 <= i < ss.len() && stmt_free(ss[i], scope_after_block(ss, sc0, i), x);
        lemma_scope_after_block_push(ss, s, sc0, i);
        assert(wi(i) && s2[i] == ss[i]);
    }
    if stmt_free(s, scope_after_block(ss, sc0, n), x) {
        lemma_scope_after_block_push(ss, s, sc0, n);
        assert(wi(n) && s2[n] == s);
    }
    if block_free(s2, sc0, x) {
        let i = choose|i: int| #[trigger] wi(i) && 0 <= i < s2.len() && stmt_free(s2[i], scope_after_block(s2, sc0, i), x);
        lemma_scope_after_block_push(ss, s, sc0, i);
        if i < n { assert(wi(i) && s2[i] == ss[i]); } else { assert(s2[i] == s); }
    }
}
proof fn lemma_block_free_single(s: Stmt, sc: ISet<Seq<char>>, x: Seq<char>)
    ensures block_free(seq![s], sc, x) <==> stmt_free(s, sc, x)
{
    let ss = seq![s];
    assert(scope_after_block(ss, sc, 0) == sc);
    if stmt_free(s, sc, x) { assert(wi(0) && ss[0] == s); }
    if block_free(ss, sc, x) {
        let i = choose|i: int| #[trigger] wi(i) && 0 <= i < ss.len() && stmt_free(ss[i], scope_after_block(ss, sc, i), x);
        assert(i == 0 && ss[0] == s);
    }
}
proof fn lemma_block_free_empty(sc: ISet<Seq<char>>, x: Seq<char>)
    ensures !block_free(Seq::<Stmt>::empty(), sc, x)
{
}
proof fn lemma_decl_reads_trans(v0: Map<&str, (core::ops::Range<usize>, Expr)>, v1: Map<&str, (core::ops::Range<usize>, Expr)>, v2: Map<&str, (core::ops::Range<usize>, Expr)>, x: Seq<char>)
    requires vs_ext(v0, v1), vs_ext(v1, v2)
    ensures decl_reads(v0, v2, x) <==> (decl_reads(v0, v1, x) || decl_reads(v1, v2, x)), vs_ext(v0, v2)
{
    if decl_reads(v0, v1, x) {
        let k = choose|k: &str| #[trigger] v1.contains_key(k) && !v0.contains_key(k) && expr_reads(v1[k].1, x);
        assert(v2.contains_key(k) && v2[k] == v1[k]);
    }
    if decl_reads(v1, v2, x) {
        let k = choose|k: &str| #[trigger] v2.contains_key(k) && !v1.contains_key(k) && expr_reads(v2[k].1, x);
        assert(!v0.contains_key(k));
    }
    if decl_reads(v0, v2, x) {
        let k = choose|k: &str| #[trigger] v2.contains_key(k) && !v0.contains_key(k) && expr_reads(v2[k].1, x);
        if v1.contains_key(k) { assert(v2[k] == v1[k]); }
    }
}
proof fn lemma_decl_reads_none(v: Map<&str, (core::ops::Range<usize>, Expr)>, x: Seq<char>)
    ensures !decl_reads(v, v, x), vs_ext(v, v)
{
}
/// one new statement s (and possibly declarations inside it)
proof fn lemma_blk_step<V>(eo0: Map<&str, V>, eo_it: Map<&str, V>, eo1: Map<&str, V>, ss: Seq<Stmt>, s: Stmt, sc0: ISet<Seq<char>>,
    v0: Map<&str, (core::ops::Range<usize>, Expr)>, v_it: Map<&str, (core::ops::Range<usize>, Expr)>, v1: Map<&str, (core::ops::Range<usize>, Expr)>, q: spec_fn(Seq<char>) -> bool)
    requires
        grows_by(eo0, eo_it, blkp(ss, sc0, v0, v_it)), grows_by(eo_it, eo1, q), vs_ext(v0, v_it), vs_ext(v_it, v1),
        forall|x: Seq<char>| #[trigger] q(x) <==> (stmt_free(s, scope_after_block(ss, sc0, ss.len() as int), x) || decl_reads(v_it, v1, x)),
    ensures
        grows_by(eo0, eo1, blkp(ss.push(s), sc0, v0, v1)), vs_ext(v0, v1),
{
    let r = blkp(ss.push(s), sc0, v0, v1);
    assert forall|x: Seq<char>| #[trigger] r(x) <==> (blkp(ss, sc0, v0, v_it)(x) || q(x)) by {
        lemma_block_free_push(ss, s, sc0, x);
        lemma_decl_reads_trans(v0, v_it, v1, x);
    }
    lemma_grows_trans(eo0, eo_it, eo1, blkp(ss, sc0, v0, v_it), q, r);
    lemma_decl_reads_trans(v0, v_it, v1, Seq::<char>::empty());
}
/// a declaration (no new statement)
proof fn lemma_blk_decl<V>(eo0: Map<&str, V>, eo_it: Map<&str, V>, eo1: Map<&str, V>, ss: Seq<Stmt>, sc0: ISet<Seq<char>>,
    v0: Map<&str, (core::ops::Range<usize>, Expr)>, v_it: Map<&str, (core::ops::Range<usize>, Expr)>, v1: Map<&str, (core::ops::Range<usize>, Expr)>, q: spec_fn(Seq<char>) -> bool)
    requires
        grows_by(eo0, eo_it, blkp(ss, sc0, v0, v_it)), grows_by(eo_it, eo1, q), vs_ext(v0, v_it), vs_ext(v_it, v1),
        forall|x: Seq<char>| #[trigger] q(x) <==> decl_reads(v_it, v1, x),
    ensures
        grows_by(eo0, eo1, blkp(ss, sc0, v0, v1)), vs_ext(v0, v1),
{
    let r = blkp(ss, sc0, v0, v1);
    assert forall|x: Seq<char>| #[trigger] r(x) <==> (blkp(ss, sc0, v0, v_it)(x) || q(x)) by {
        lemma_decl_reads_trans(v0, v_it, v1, x);
    }
    lemma_grows_trans(eo0, eo_it, eo1, blkp(ss, sc0, v0, v_it), q, r);
    lemma_decl_reads_trans(v0, v_it, v1, Seq::<char>::empty());
}
proof fn lemma_blk_start<V>(eo0: Map<&str, V>, sc0: ISet<Seq<char>>, v0: Map<&str, (core::ops::Range<usize>, Expr)>)
    ensures grows_by(eo0, eo0, blkp(Seq::<Stmt>::empty(), sc0, v0, v0)), vs_ext(v0, v0)
{
    lemma_grows_refl(eo0);
    assert forall|x: Seq<char>| #[trigger] blkp(Seq::<Stmt>::empty(), sc0, v0, v0)(x) <==> none_free()(x) by {
        lemma_block_free_empty(sc0, x); lemma_decl_reads_none(v0, x);
    }
    lemma_grows_same(eo0, eo0, none_free(), blkp(Seq::<Stmt>::empty(), sc0, v0, v0));
}

// ---- one lemma per statement kind (what the statement loop calls) ----
proof fn lemma_arm_row<V>(eo0: Map<&str, V>, eo_it: Map<&str, V>, eo1: Map<&str, V>, ss: Seq<Stmt>, data: Vec<DataEntry>, line: usize, sc0: ISet<Seq<char>>,
    v0: Map<&str, (core::ops::Range<usize>, Expr)>, v_it: Map<&str, (core::ops::Range<usize>, Expr)>)
    requires grows_by(eo0, eo_it, blkp(ss, sc0, v0, v_it)), vs_ext(v0, v_it),
        grows_by(eo_it, eo1, row_free(data@, scope_after_block(ss, sc0, ss.len() as int))),
    ensures grows_by(eo0, eo1, blkp(ss.push(Stmt::DataRow { data, line }), sc0, v0, v_it)),
        scope_after_block(ss.push(Stmt::DataRow { data, line }), sc0, ss.len() as int + 1) == scope_after_block(ss, sc0, ss.len() as int),
{
    let s = Stmt::DataRow { data, line };
    let sc = scope_after_block(ss, sc0, ss.len() as int);
    let q = row_free(data@, sc);
    assert forall|x: Seq<char>| #[trigger] q(x) <==> (stmt_free(s, sc, x) || decl_reads(v_it, v_it, x)) by { lemma_decl_reads_none(v_it, x); }
    lemma_decl_reads_none(v_it, Seq::<char>::empty());
    lemma_blk_step(eo0, eo_it, eo1, ss, s, sc0, v0, v_it, v_it, q);
    lemma_scope_after_push(ss, s, sc0);
}
proof fn lemma_arm_let<V>(eo0: Map<&str, V>, eo_it: Map<&str, V>, eo1: Map<&str, V>, ss: Seq<Stmt>, name: String, expr: Expr, sc0: ISet<Seq<char>>,
    v0: Map<&str, (core::ops::Range<usize>, Expr)>, v_it: Map<&str, (core::ops::Range<usize>, Expr)>)
    requires grows_by(eo0, eo_it, blkp(ss, sc0, v0, v_it)), vs_ext(v0, v_it),
        grows_by(eo_it, eo1, free_in_expr(expr, scope_after_block(ss, sc0, ss.len() as int))),
    ensures grows_by(eo0, eo1, blkp(ss.push(Stmt::Let { name, expr }), sc0, v0, v_it)),
        scope_after_block(ss.push(Stmt::Let { name, expr }), sc0, ss.len() as int + 1) == scope_after_block(ss, sc0, ss.len() as int).insert(name@),
{
    let s = Stmt::Let { name, expr };
    let sc = scope_after_block(ss, sc0, ss.len() as int);
    let q = free_in_expr(expr, sc);
    assert forall|x: Seq<char>| #[trigger] q(x) <==> (stmt_free(s, sc, x) || decl_reads(v_it, v_it, x)) by { lemma_decl_reads_none(v_it, x); }
    lemma_decl_reads_none(v_it, Seq::<char>::empty());
    lemma_blk_step(eo0, eo_it, eo1, ss, s, sc0, v0, v_it, v_it, q);
    lemma_scope_after_push(ss, s, sc0);
}
proof fn lemma_arm_reset<V>(eo0: Map<&str, V>, eo_it: Map<&str, V>, ss: Seq<Stmt>, sc0: ISet<Seq<char>>,
    v0: Map<&str, (core::ops::Range<usize>, Expr)>, v_it: Map<&str, (core::ops::Range<usize>, Expr)>)
    requires grows_by(eo0, eo_it, blkp(ss, sc0, v0, v_it)), vs_ext(v0, v_it),
    ensures grows_by(eo0, eo_it, blkp(ss.push(Stmt::ResetRandom), sc0, v0, v_it)),
        scope_after_block(ss.push(Stmt::ResetRandom), sc0, ss.len() as int + 1) == scope_after_block(ss, sc0, ss.len() as int),
{
    let s = Stmt::ResetRandom;
    let sc = scope_after_block(ss, sc0, ss.len() as int);
    lemma_grows_refl(eo_it);
    assert forall|x: Seq<char>| #[trigger] none_free()(x) <==> (stmt_free(s, sc, x) || decl_reads(v_it, v_it, x)) by { lemma_decl_reads_none(v_it, x); }
    lemma_decl_reads_none(v_it, Seq::<char>::empty());
    lemma_blk_step(eo0, eo_it, eo_it, ss, s, sc0, v0, v_it, v_it, none_free());
    lemma_scope_after_push(ss, s, sc0);
}
proof fn lemma_arm_loop<V>(eo0: Map<&str, V>, eo_it: Map<&str, V>, eo_a: Map<&str, V>, eo1: Map<&str, V>, ss: Seq<Stmt>, variable: String, max: Expr, inner: Vec<Stmt>,
    sc0: ISet<Seq<char>>, v0: Map<&str, (core::ops::Range<usize>, Expr)>, v_it: Map<&str, (core::ops::Range<usize>, Expr)>, v1: Map<&str, (core::ops::Range<usize>, Expr)>)
    requires grows_by(eo0, eo_it, blkp(ss, sc0, v0, v_it)), vs_ext(v0, v_it), vs_ext(v_it, v1),
        grows_by(eo_it, eo_a, free_in_expr(max, scope_after_block(ss, sc0, ss.len() as int))),
        grows_by(eo_a, eo1, blkp(inner@, scope_after_block(ss, sc0, ss.len() as int).insert(variable@), v_it, v1)),
    ensures grows_by(eo0, eo1, blkp(ss.push(Stmt::Loop { variable, max, inner }), sc0, v0, v1)), vs_ext(v0, v1),
        scope_after_block(ss.push(Stmt::Loop { variable, max, inner }), sc0, ss.len() as int + 1) == scope_after_block(ss, sc0, ss.len() as int),
{
    let s = Stmt::Loop { variable, max, inner };
    let sc = scope_after_block(ss, sc0, ss.len() as int);
    let p1 = free_in_expr(max, sc);
    let p2 = blkp(inner@, sc.insert(variable@), v_it, v1);
    let q = |x: Seq<char>| p1(x) || p2(x);
    lemma_grows_trans(eo_it, eo_a, eo1, p1, p2, q);
    assert forall|x: Seq<char>| #[trigger] q(x) <==> (stmt_free(s, sc, x) || decl_reads(v_it, v1, x)) by { }
    lemma_blk_step(eo0, eo_it, eo1, ss, s, sc0, v0, v_it, v1, q);
    lemma_scope_after_push(ss, s, sc0);
}
proof fn lemma_arm_repeat<V>(eo0: Map<&str, V>, eo_it: Map<&str, V>, eo_a: Map<&str, V>, eo1: Map<&str, V>, ss: Seq<Stmt>, variable: String, max: Expr, inner: Vec<Stmt>,
    data: Vec<DataEntry>, line: usize, sc0: ISet<Seq<char>>, v0: Map<&str, (core::ops::Range<usize>, Expr)>, v_it: Map<&str, (core::ops::Range<usize>, Expr)>)
    requires grows_by(eo0, eo_it, blkp(ss, sc0, v0, v_it)), vs_ext(v0, v_it), inner@ =~= seq![Stmt::DataRow { data, line }],
        grows_by(eo_it, eo_a, free_in_expr(max, scope_after_block(ss, sc0, ss.len() as int))),
        grows_by(eo_a, eo1, row_free(data@, scope_after_block(ss, sc0, ss.len() as int).insert(variable@))),
    ensures grows_by(eo0, eo1, blkp(ss.push(Stmt::Loop { variable, max, inner }), sc0, v0, v_it)),
        scope_after_block(ss.push(Stmt::Loop { variable, max, inner }), sc0, ss.len() as int + 1) == scope_after_block(ss, sc0, ss.len() as int),
{
    let s = Stmt::Loop { variable, max, inner };
    let sc = scope_after_block(ss, sc0, ss.len() as int);
    let p1 = free_in_expr(max, sc);
    let p2 = row_free(data@, sc.insert(variable@));
    let q = |x: Seq<char>| p1(x) || p2(x);
    lemma_grows_trans(eo_it, eo_a, eo1, p1, p2, q);
    assert forall|x: Seq<char>| #[trigger] q(x) <==> (stmt_free(s, sc, x) || decl_reads(v_it, v_it, x)) by {
        lemma_decl_reads_none(v_it, x);
        lemma_block_free_single(Stmt::DataRow { data, line }, sc.insert(variable@), x);
    }
    lemma_decl_reads_none(v_it, Seq::<char>::empty());
    lemma_blk_step(eo0, eo_it, eo1, ss, s, sc0, v0, v_it, v_it, q);
    lemma_scope_after_push(ss, s, sc0);
}
proof fn lemma_arm_while<V>(eo0: Map<&str, V>, eo_it: Map<&str, V>, eo_a: Map<&str, V>, eo1: Map<&str, V>, ss: Seq<Stmt>, condition: Expr, inner: Vec<Stmt>,
    sc0: ISet<Seq<char>>, v0: Map<&str, (core::ops::Range<usize>, Expr)>, v_it: Map<&str, (core::ops::Range<usize>, Expr)>, v1: Map<&str, (core::ops::Range<usize>, Expr)>)
    requires grows_by(eo0, eo_it, blkp(ss, sc0, v0, v_it)), vs_ext(v0, v_it), vs_ext(v_it, v1),
        grows_by(eo_it, eo_a, free_in_expr(condition, scope_after_block(ss, sc0, ss.len() as int))),
        grows_by(eo_a, eo1, blkp(inner@, scope_after_block(ss, sc0, ss.len() as int), v_it, v1)),
    ensures grows_by(eo0, eo1, blkp(ss.push(Stmt::While { condition, inner }), sc0, v0, v1)), vs_ext(v0, v1),
        scope_after_block(ss.push(Stmt::While { condition, inner }), sc0, ss.len() as int + 1)
            == scope_after_block(inner@, scope_after_block(ss, sc0, ss.len() as int), inner@.len() as int),
{
    let s = Stmt::While { condition, inner };
    let sc = scope_after_block(ss, sc0, ss.len() as int);
    let p1 = free_in_expr(condition, sc);
    let p2 = blkp(inner@, sc, v_it, v1);
    let q = |x: Seq<char>| p1(x) || p2(x);
    lemma_grows_trans(eo_it, eo_a, eo1, p1, p2, q);
    assert forall|x: Seq<char>| #[trigger] q(x) <==> (stmt_free(s, sc, x) || decl_reads(v_it, v1, x)) by { }
    lemma_blk_step(eo0, eo_it, eo1, ss, s, sc0, v0, v_it, v1, q);
    lemma_scope_after_push(ss, s, sc0);
}
proof fn lemma_arm_declare<V>(eo0: Map<&str, V>, eo_it: Map<&str, V>, eo1: Map<&str, V>, ss: Seq<Stmt>, sc0: ISet<Seq<char>>,
    v0: Map<&str, (core::ops::Range<usize>, Expr)>, v_it: Map<&str, (core::ops::Range<usize>, Expr)>, v1: Map<&str, (core::ops::Range<usize>, Expr)>,
    name: &str, span: core::ops::Range<usize>, expr: Expr, sce: ISet<Seq<char>>)
    requires grows_by(eo0, eo_it, blkp(ss, sc0, v0, v_it)), vs_ext(v0, v_it),
        forall|x: Seq<char>| !sce.contains(x),
        grows_by(eo_it, eo1, free_in_expr(expr, sce)),
        !v_it.contains_key(name), v1 == v_it.insert(name, (span, expr)),
    ensures grows_by(eo0, eo1, blkp(ss, sc0, v0, v1)), vs_ext(v0, v1),
{
    let q = free_in_expr(expr, sce);
    assert(vs_ext(v_it, v1));
    assert forall|x: Seq<char>| #[trigger] q(x) <==> decl_reads(v_it, v1, x) by {
        if expr_reads(expr, x) { assert(v1.contains_key(name) && !v_it.contains_key(name) && v1[name].1 == expr); }
        if decl_reads(v_it, v1, x) {
            let k = choose|k: &str| #[trigger] v1.contains_key(k) && !v_it.contains_key(k) && expr_reads(v1[k].1, x);
            assert(k == name);
        }
    }
    lemma_blk_decl(eo0, eo_it, eo1, ss, sc0, v0, v_it, v1, q);
}

// ---- the FramedSet<&str> operations on the scope view ----

// [A-std] std's reflexive `impl<T> Into<T> for T` is the identity (FramedSet::insert takes `impl Into<K>`)
#[verifier::external_body]
proof fn axiom_reflexive_into_str()
    ensures
        <&str as IntoSpec<&str>>::obeys_into_spec(),
        forall|a: &str| #[trigger] <&str as IntoSpec<&str>>::into_spec(a) == a,
{
}
proof fn lemma_find_from_result<K: PartialEq, V>(s: Seq<(K, V)>, from: int, key: K)
    requires 0 <= from
    ensures match find_from(s, from, key) { Some(i) => from <= i < s.len() && s[i].0.eq_spec(&key), None => true }
    decreases s.len() - from
{
    if from < s.len() && !s[from].0.eq_spec(&key) { lemma_find_from_result(s, from + 1, key); }
}
/// inserting a name: the scope gains it; what was there stays where it was
proof fn lemma_scope_insert(v0: FramedSet<&str>, v1: FramedSet<&str>, name: &str)
    requires v0.map.wf(),
        match find_from(v0.map.values@, v0.map.frame_start(), name) {
            Some(i) => v1.map.values@ == v0.map.values@.update(i, (v0.map.values@[i].0, ())),
            None => v1.map.values@ == v0.map.values@.push((name, ())),
        },
    ensures scope_of(v1) == scope_of(v0).insert(name@),
        v1.map.values@.len() >= v0.map.values@.len(), v1.map.values@.take(v0.map.values@.len() as int) =~= v0.map.values@,
{
    axiom_string_model();
    let s0 = v0.map.values@; let s1 = v1.map.values@;
    lemma_find_from_result(s0, v0.map.frame_start(), name);
    match find_from(s0, v0.map.frame_start(), name) {
        Some(i) => {
            assert(s0[i].1 == ());
            assert(s0[i] == (s0[i].0, ()));
            assert(s1 =~= s0);
            assert(s0[i].0@ == name@);
            assert(scope_of(v1) =~= scope_of(v0).insert(name@)) by {
                assert(scope_of(v0).contains(name@));
            }
        }
        None => {
            assert(scope_of(v1) =~= scope_of(v0).insert(name@)) by {
                assert forall|x: Seq<char>| scope_of(v1).contains(x) <==> (scope_of(v0).contains(x) || x == name@) by {
                    if scope_of(v0).contains(x) {
                        let i = choose|i: int| 0 <= i < s0.len() && (#[trigger] s0[i]).0@ == x;
                        assert(s1[i] == s0[i]);
                    }
                    if x == name@ { assert(s1[s0.len() as int].0@ == x); }
                    if scope_of(v1).contains(x) {
                        let i = choose|i: int| 0 <= i < s1.len() && (#[trigger] s1[i]).0@ == x;
                        if i < s0.len() { assert(s1[i] == s0[i]); }
                    }
                }
            }
        }
    }
}
/// same values, same scope
proof fn lemma_scope_same_values(v0: FramedSet<&str>, v1: FramedSet<&str>)
    requires v0.map.values@ == v1.map.values@
    ensures scope_of(v0) == scope_of(v1)
{
    assert(scope_of(v0) =~= scope_of(v1));
}
proof fn lemma_scope_empty(v: FramedSet<&str>)
    requires v.map.values@.len() == 0
    ensures forall|x: Seq<char>| !scope_of(v).contains(x)
{
}

/// x is one of the listed names
spec fn listed_name(l: Seq<(String, core::ops::Range<usize>)>, x: Seq<char>) -> bool {
    exists|i: int| 0 <= i < l.len() && (#[trigger] l[i]).0@ == x
}
/// x is read by the expression of one of the declared virtual signals
spec fn vs_list_reads(l: Seq<(VirtualSignal, core::ops::Range<usize>)>, x: Seq<char>) -> bool {
    exists|j: int| 0 <= j < l.len() && expr_reads((#[trigger] l[j]).0.expr, x)
}
