// ---- assumed std specifications and N7/N9 combinators shared by the driver and binding units ----

// [A-std] slice::Iter::position: index of the first element accepted by the predicate
pub assume_specification<'a, T, P: FnMut(&'a T) -> bool>[ <core::slice::Iter<'a, T> as Iterator>::position ](it: &mut core::slice::Iter<'a, T>, pred: P) -> (r: Option<usize>)
    where core::slice::Iter<'a, T>: Sized,
    requires
        forall|i: int| 0 <= i < old(it).remaining().len() ==> call_requires(pred, (old(it).remaining()[i],)),
    ensures
        match r {
            Some(n) => n < old(it).remaining().len() && call_ensures(pred, (old(it).remaining()[n as int],), true)
                && (forall|m: int| 0 <= m < n ==> call_ensures(pred, (#[trigger] old(it).remaining()[m],), false)),
            None => forall|m: int| 0 <= m < old(it).remaining().len() ==> call_ensures(pred, (#[trigger] old(it).remaining()[m],), false),
        };

// [A-std] slice::contains for a type whose == is value equality
pub assume_specification<T: PartialEq>[ <[T]>::contains ](s: &[T], x: &T) -> (r: bool)
    ensures T::obeys_eq_spec() ==> r == (exists|i: int| 0 <= i < s@.len() && (#[trigger] s@[i]).eq_spec(x));

// [A-std] N9: `v.join(sep)` on a Vec<String> is emitted as `verif_join(&v, sep)`: some String (only used inside error messages)
#[verifier::external_body]
fn verif_join(s: &Vec<String>, sep: &str) -> (r: String)
{
    s.join(sep)
}

// N7 [A-std]: `xs.iter().filter_map(f).collect::<Vec<_>>()`: the Some-images in order
#[verifier::external_body]
fn verif_filter_map<T, R, F: FnMut(&T) -> Option<R>>(xs: &[T], f: F) -> (r: Vec<R>)
    requires
        forall|i: int| 0 <= i < xs@.len() ==> call_requires(f, (&xs@[i],)),
    ensures
        exists|res: spec_fn(int) -> Option<R>| (forall|i: int| 0 <= i < xs@.len() ==> call_ensures(f, (&xs@[i],), #[trigger] res(i)))
            && r@ == filter_map_prefix(res, xs@.len() as int),
{
    unimplemented!()
}


// N7 [A-std]: `v.iter().position(f)` on a Vec is emitted as `verif_position(&v, f)`: index of the first element accepted by f
#[verifier::external_body]
fn verif_position<T, F: FnMut(&T) -> bool>(xs: &Vec<T>, f: F) -> (r: Option<usize>)
    requires
        forall|i: int| 0 <= i < xs@.len() ==> call_requires(f, (&xs@[i],)),
    ensures
        xs@.len() <= usize::MAX,
        match r {
            Some(n) => n < xs@.len() && call_ensures(f, (&xs@[n as int],), true)
                && (forall|m: int| 0 <= m < n ==> call_ensures(f, (&#[trigger] xs@[m],), false)),
            None => forall|m: int| 0 <= m < xs@.len() ==> call_ensures(f, (&#[trigger] xs@[m],), false),
        },
{
    xs.iter().position(f)
}
