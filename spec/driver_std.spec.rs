// ---- assumed std specifications and N7/N9 combinators shared by the driver and binding units ----

//@include spec/position.spec.rs
// [A-std] slice::contains for a type whose == is value equality
pub assume_specification<T: PartialEq>[ <[T]>::contains ](s: &[T], x: &T) -> (r: bool)
    ensures T::obeys_eq_spec() ==> r == (exists|i: int| 0 <= i < s@.len() && (#[trigger] s@[i]).eq_spec(x));

// [A-std] N9: `v.join(sep)` on a Vec<String> is emitted as `verif_join(&v, sep)`: some String (only used inside error messages)
#[verifier::external_body]
fn verif_join(s: &Vec<String>, sep: &str) -> (r: String)
{
    s.join(sep)
}

// N7 [A-std]: `xs.iter().filter_map(f).collect::<Vec<_>>()`: the Some-images in order
#[verifier::external_body]
fn verif_filter_map<T, R, F: FnMut(&T) -> Option<R>>(xs: &[T], f: F) -> (r: Vec<R>)
    requires
        forall|i: int| 0 <= i < xs@.len() ==> call_requires(f, (&xs@[i],)),
    ensures
        exists|res: spec_fn(int) -> Option<R>| (forall|i: int| 0 <= i < xs@.len() ==> call_ensures(f, (&xs@[i],), #[trigger] res(i)))
            && r@ == filter_map_prefix(res, xs@.len() as int),
{
    unimplemented!()
}


