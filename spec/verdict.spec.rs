// ---- spec vocabulary for values and verdicts (written from the statement of C03) ----

// [A-std] std's `impl<T> From<T> for T` is the identity conversion (and hence so is the blanket Into).
#[verifier::external_body]
proof fn axiom_reflexive_into_output_value(o: OutputValue)
    ensures
        <OutputValue as IntoSpec<OutputValue>>::obeys_into_spec(),
        IntoSpec::<OutputValue>::into_spec(o) == o,
{
}


/// C03: an entry passes iff expected is X, or is Z and the output is Z, or both are numbers and equal
spec fn check_spec(e: ExpectedValue, o: OutputValue) -> bool {
    e is X || (e is Z && o is Z) || (e is Value && o is Value && e->Value_0 == o->Value_0)
}

// N7 [A-std]: `xs.iter().filter(f)` returned as `impl Iterator` is emitted as verif_filter_iter(xs, f), whose result is described
// by the elements it will yield: those of xs accepted by f, in order. The body IS the original chain.
#[verifier::external_body]
#[verifier::accept_recursive_types(T)]
struct VerifFiltered<'a, T> { _p: core::marker::PhantomData<&'a T> }
impl<'a, T> VerifFiltered<'a, T> {
    uninterp spec fn yields(&self) -> Seq<&'a T>;
}
#[verifier::external_body]
fn verif_filter_iter<'a, T, F: FnMut(&&'a T) -> bool>(xs: &'a Vec<T>, f: F) -> (r: VerifFiltered<'a, T>)
    requires forall|i: int| 0 <= i < xs@.len() ==> call_requires(f, (&&xs@[i],)),
    ensures
        // every yielded element is an element of xs accepted by f, in the order of xs, and every accepted element is yielded
        exists|idx: Seq<int>| #[trigger] widx(idx) && idx.len() == r.yields().len()
            && (forall|k: int| 0 <= k < idx.len() ==> 0 <= #[trigger] idx[k] < xs@.len() && *r.yields()[k] == xs@[idx[k]] && call_ensures(f, (&&xs@[idx[k]],), true))
            && (forall|k: int, m: int| 0 <= k < m < idx.len() ==> idx[k] < idx[m])
            && (forall|i: int| 0 <= i < xs@.len() && !call_ensures(f, (&&xs@[i],), false) ==> exists|k: int| 0 <= k < idx.len() && #[trigger] idx[k] == i),
{
    unimplemented!()
}
spec fn widx(s: Seq<int>) -> bool { true }
