// ---- C05: expansion of X (don't care) and C (clock) entries in input columns ----

// N7 [A-std]: `xs.iter().enumerate().rev().find_map(f)`: the image of the LAST index whose image is Some
#[verifier::external_body]
fn verif_rfind_map_indexed<T, R, F: FnMut((usize, &T)) -> Option<R>>(xs: &Vec<T>, f: F) -> (r: Option<R>)
    requires
        forall|i: int| 0 <= i < xs@.len() ==> call_requires(f, ((i as usize, &xs@[i]),)),
    ensures
        xs@.len() <= usize::MAX,
        match r {
            Some(v) => exists|i: int| 0 <= i < xs@.len() && call_ensures(f, ((i as usize, &xs@[i]),), Some(v))
                && (forall|j: int| i < j < xs@.len() ==> call_ensures(f, ((j as usize, &#[trigger] xs@[j]),), None::<R>)),
            None => forall|j: int| 0 <= j < xs@.len() ==> call_ensures(f, ((j as usize, &#[trigger] xs@[j]),), None::<R>),
        },
{
    unimplemented!()
}

/// the Some-images among the first n, in index order
spec fn filter_map_prefix<R>(res: spec_fn(int) -> Option<R>, n: int) -> Seq<R>
    decreases n
{
    if n <= 0 { Seq::empty() } else {
        let p = filter_map_prefix(res, n - 1);
        match res(n - 1) { Some(v) => p.push(v), None => p }
    }
}

// N7 [A-std]: `xs.iter().enumerate().filter_map(f).collect::<Vec<_>>()`: the Some-images in index order
#[verifier::external_body]
fn verif_filter_map_indexed<T, R, F: FnMut((usize, &T)) -> Option<R>>(xs: &Vec<T>, f: F) -> (r: Vec<R>)
    requires
        forall|i: int| 0 <= i < xs@.len() ==> call_requires(f, ((i as usize, &xs@[i]),)),
    ensures
        xs@.len() <= usize::MAX,
        exists|res: spec_fn(int) -> Option<R>| (forall|i: int| 0 <= i < xs@.len() ==> call_ensures(f, ((i as usize, &xs@[i]),), #[trigger] res(i)))
            && r@ == filter_map_prefix(res, xs@.len() as int),
{
    unimplemented!()
}

impl Cols {
    spec fn is_x_col(&self, e: Seq<DataEntry>, i: int) -> bool { 0 <= i < e.len() && e[i] == DataEntry::X && self.col_is_input(i) }
    spec fn is_c_col(&self, e: Seq<DataEntry>, i: int) -> bool { 0 <= i < e.len() && e[i] == DataEntry::C && self.col_is_input(i) }

    spec fn count_x(&self, e: Seq<DataEntry>, n: int) -> nat
        decreases n
    {
        if n <= 0 { 0 } else { self.count_x(e, n - 1) + if self.is_x_col(e, n - 1) { 1nat } else { 0nat } }
    }
    /// right-most input X column below n
    spec fn rightmost_x(&self, e: Seq<DataEntry>, n: int) -> Option<int>
        decreases n
    {
        if n <= 0 { None } else if self.is_x_col(e, n - 1) { Some(n - 1) } else { self.rightmost_x(e, n - 1) }
    }

    /// C05: the 2^k assignments of 0/1 to the k input X columns, 0 before 1, the right-most X column varying
    /// slowest (equivalently: the left-most varying fastest)
    spec fn x_expand(&self, e: Seq<DataEntry>) -> Seq<Seq<DataEntry>>
        decreases self.count_x(e, e.len() as int)
        via Self::x_expand_decreases
    {
        match self.rightmost_x(e, e.len() as int) {
            None => seq![e],
            Some(i) => self.x_expand(e.update(i, DataEntry::Number(0))) + self.x_expand(e.update(i, DataEntry::Number(1))),
        }
    }

    #[via_fn]
    proof fn x_expand_decreases(&self, e: Seq<DataEntry>) {
        match self.rightmost_x(e, e.len() as int) {
            None => {},
            Some(i) => {
                self.lemma_rightmost_x(e, e.len() as int);
                self.lemma_count_x_update(e, e.len() as int, i, DataEntry::Number(0));
                self.lemma_count_x_update(e, e.len() as int, i, DataEntry::Number(1));
            }
        }
    }

    proof fn lemma_rightmost_x(&self, e: Seq<DataEntry>, n: int)
        requires n <= e.len()
        ensures match self.rightmost_x(e, n) {
            Some(i) => 0 <= i < n && self.is_x_col(e, i) && (forall|j: int| i < j < n ==> !self.is_x_col(e, j)),
            None => forall|j: int| 0 <= j < n ==> !self.is_x_col(e, j),
        }
        decreases n
    {
        if n > 0 { self.lemma_rightmost_x(e, n - 1); }
    }

    proof fn lemma_rightmost_x_is(&self, e: Seq<DataEntry>, n: int, i: int)
        requires 0 <= i < n <= e.len(), self.is_x_col(e, i), forall|j: int| i < j < n ==> !self.is_x_col(e, j)
        ensures self.rightmost_x(e, n) == Some(i)
        decreases n
    {
        if n - 1 > i { self.lemma_rightmost_x_is(e, n - 1, i); }
    }
    proof fn lemma_rightmost_x_none(&self, e: Seq<DataEntry>, n: int)
        requires n <= e.len(), forall|j: int| 0 <= j < n ==> !self.is_x_col(e, j)
        ensures self.rightmost_x(e, n) is None
        decreases n
    {
        if n > 0 { self.lemma_rightmost_x_none(e, n - 1); }
    }

    proof fn lemma_count_x_update(&self, e: Seq<DataEntry>, n: int, i: int, v: DataEntry)
        requires 0 <= i < e.len(), n <= e.len(), self.is_x_col(e, i), v != DataEntry::X
        ensures self.count_x(e.update(i, v), n) == self.count_x(e, n) - if i < n { 1int } else { 0int },
            i < n ==> self.count_x(e, n) >= 1,
        decreases n
    {
        if n > 0 {
            self.lemma_count_x_update(e, n - 1, i, v);
            assert(self.is_x_col(e.update(i, v), n - 1) == (self.is_x_col(e, n - 1) && n - 1 != i));
        }
    }

    /// entries with every input C column of e0 set to the number v
    spec fn c_set(&self, e0: Seq<DataEntry>, e: Seq<DataEntry>, v: i64) -> Seq<DataEntry> {
        Seq::new(e.len(), |i: int| if self.is_c_col(e0, i) { DataEntry::Number(v) } else { e[i] })
    }
    /// entries with every expected column set to X
    spec fn xed(&self, e: Seq<DataEntry>) -> Seq<DataEntry> {
        Seq::new(e.len(), |i: int| if self.col_is_expected(i) { DataEntry::X } else { e[i] })
    }
    spec fn has_c(&self, e: Seq<DataEntry>) -> bool { exists|i: int| self.is_c_col(e, i) }

    /// C05: a row with C in input columns is three writes: clocks 0, 1 (outputs neither read nor compared), then 0 (checked)
    spec fn triple(&self, r: RowS) -> Seq<RowS> {
        if !self.has_c(r.entries) { seq![r] } else {
            let chk = self.c_set(r.entries, r.entries, 0);
            let t = self.xed(chk);
            seq![
                RowS { entries: self.c_set(r.entries, t, 0), line: r.line, update_output: false },
                RowS { entries: self.c_set(r.entries, t, 1), line: r.line, update_output: false },
                RowS { entries: chk, line: r.line, update_output: r.update_output },
            ]
        }
    }

    spec fn concat_triples(&self, xs: Seq<Seq<DataEntry>>, line: usize, uo: bool) -> Seq<RowS>
        decreases xs.len()
    {
        if xs.len() == 0 { Seq::empty() } else {
            self.triple(RowS { entries: xs[0], line, update_output: uo }) + self.concat_triples(xs.skip(1), line, uo)
        }
    }

    /// the rows one source row is executed as: one full clock triple per X assignment
    spec fn expand_spec(&self, r: RowS) -> Seq<RowS> {
        self.concat_triples(self.x_expand(r.entries), r.line, r.update_output)
    }

    /// rows still to be produced from the stack (top of the stack = last element = next)
    spec fn pending(&self, stack: Seq<DataEntries>) -> Seq<RowS>
        decreases stack.len()
    {
        if stack.len() == 0 { Seq::empty() } else {
            self.expand_spec(row_view(stack.last())) + self.pending(stack.drop_last())
        }
    }

    proof fn lemma_concat_triples_append(&self, a: Seq<Seq<DataEntry>>, b: Seq<Seq<DataEntry>>, line: usize, uo: bool)
        ensures self.concat_triples(a + b, line, uo) == self.concat_triples(a, line, uo) + self.concat_triples(b, line, uo)
        decreases a.len()
    {
        if a.len() == 0 {
            assert(a + b =~= b);
            assert(self.concat_triples(a, line, uo) + self.concat_triples(b, line, uo) =~= self.concat_triples(b, line, uo));
        } else {
            assert((a + b).skip(1) =~= a.skip(1) + b);
            assert((a + b)[0] == a[0]);
            self.lemma_concat_triples_append(a.skip(1), b, line, uo);
            let t = self.triple(RowS { entries: a[0], line, update_output: uo });
            assert(t + (self.concat_triples(a.skip(1), line, uo) + self.concat_triples(b, line, uo)) =~= (t + self.concat_triples(a.skip(1), line, uo)) + self.concat_triples(b, line, uo));
        }
    }

    /// splitting on the right-most X: the 0-half comes first
    proof fn lemma_expand_split(&self, r: RowS, i: int)
        requires self.rightmost_x(r.entries, r.entries.len() as int) == Some(i)
        ensures self.expand_spec(r) == self.expand_spec(RowS { entries: r.entries.update(i, DataEntry::Number(0)), ..r })
            + self.expand_spec(RowS { entries: r.entries.update(i, DataEntry::Number(1)), ..r })
    {
        self.lemma_concat_triples_append(self.x_expand(r.entries.update(i, DataEntry::Number(0))), self.x_expand(r.entries.update(i, DataEntry::Number(1))), r.line, r.update_output);
    }

    proof fn lemma_expand_no_x(&self, r: RowS)
        requires self.rightmost_x(r.entries, r.entries.len() as int) is None
        ensures self.expand_spec(r) == self.triple(r)
    {
        let xs = self.x_expand(r.entries);
        assert(xs == seq![r.entries]);
        assert(xs.skip(1) =~= Seq::<Seq<DataEntry>>::empty());
        reveal_with_fuel(Cols::concat_triples, 2);
        assert(self.concat_triples(xs, r.line, r.update_output) =~= self.triple(RowS { entries: xs[0], line: r.line, update_output: r.update_output }));
    }

    /// a row without X and C in input columns is executed as itself
    proof fn lemma_final_row(&self, r: RowS)
        requires forall|i: int| !self.is_x_col(r.entries, i) && !self.is_c_col(r.entries, i)
        ensures self.expand_spec(r) == seq![r]
    {
        self.lemma_rightmost_x_none(r.entries, r.entries.len() as int);
        self.lemma_expand_no_x(r);
        assert(!self.has_c(r.entries));
    }

    proof fn lemma_pending_push(&self, stack: Seq<DataEntries>, d: DataEntries)
        ensures self.pending(stack.push(d)) == self.expand_spec(row_view(d)) + self.pending(stack)
    {
        assert(stack.push(d).drop_last() =~= stack);
    }
}

impl<'a> DataRowIteratorTestData<'a> {
    spec fn pending(&self, stack: Seq<DataEntries>) -> Seq<RowS> { self.cols().pending(stack) }
    spec fn rightmost_x(&self, e: Seq<DataEntry>, n: int) -> Option<int> { self.cols().rightmost_x(e, n) }
    spec fn count_x(&self, e: Seq<DataEntry>, n: int) -> nat { self.cols().count_x(e, n) }
    spec fn is_x_col(&self, e: Seq<DataEntry>, i: int) -> bool { self.cols().is_x_col(e, i) }
    spec fn is_c_col(&self, e: Seq<DataEntry>, i: int) -> bool { self.cols().is_c_col(e, i) }
}

/// e with the positions idxs[0..n] set to the number v
spec fn set_at(e: Seq<DataEntry>, idxs: Seq<usize>, n: int, v: i64) -> Seq<DataEntry> {
    Seq::new(e.len(), |p: int| if exists|k: int| 0 <= k < n && #[trigger] idxs[k] == p { DataEntry::Number(v) } else { e[p] })
}
/// e with the columns of the first n expected indices set to X
spec fn xed_n(e: Seq<DataEntry>, exp: Seq<EntryIndex>, n: int) -> Seq<DataEntry> {
    Seq::new(e.len(), |p: int| if exists|k: int| 0 <= k < n && ((#[trigger] exp[k]) matches EntryIndex::Entry { entry_index, signal_index } && entry_index == p) { DataEntry::X } else { e[p] })
}

proof fn lemma_filter_map_prefix_idx(res: spec_fn(int) -> Option<usize>, n: int)
    requires forall|i: int| 0 <= i < n ==> ((#[trigger] res(i)) matches Some(v) ==> v == i)
    ensures
        forall|k: int| 0 <= k < filter_map_prefix(res, n).len() ==> 0 <= (#[trigger] filter_map_prefix(res, n)[k]) < n && res(filter_map_prefix(res, n)[k] as int) is Some,
        forall|i: int| 0 <= i < n && (#[trigger] res(i)) is Some ==> (exists|k: int| 0 <= k < filter_map_prefix(res, n).len() && #[trigger] filter_map_prefix(res, n)[k] == i),
    decreases n
{
    if n > 0 {
        lemma_filter_map_prefix_idx(res, n - 1);
        let p = filter_map_prefix(res, n - 1);
        let f = filter_map_prefix(res, n);
        match res(n - 1) {
            Some(v) => {
                assert(f == p.push(v));
                assert forall|i: int| 0 <= i < n && (#[trigger] res(i)) is Some implies (exists|k: int| 0 <= k < f.len() && #[trigger] f[k] == i) by {
                    if i == n - 1 { assert(f[f.len() - 1] == i); } else {
                        let k = choose|k: int| 0 <= k < p.len() && #[trigger] p[k] == i;
                        assert(f[k] == i);
                    }
                }
            }
            None => {}
        }
    }
}

proof fn lemma_filter_map_prefix_empty<R>(res: spec_fn(int) -> Option<R>, n: int)
    ensures (filter_map_prefix(res, n).len() == 0) <==> (forall|i: int| 0 <= i < n ==> (#[trigger] res(i)) is None)
    decreases n
{
    if n > 0 {
        lemma_filter_map_prefix_empty(res, n - 1);
        if forall|i: int| 0 <= i < n ==> (#[trigger] res(i)) is None {
            assert(res(n - 1) is None);
        }
    }
}
