// ---- C11: lemmas showing that a successfully bound test is well formed (used by with_signals only) ----

proof fn lemma_bound_indices_wf(hdr: Seq<String>, sig0: Seq<Signal>, vs0: Seq<(VirtualSignal, core::ops::Range<usize>)>, all: Seq<Signal>, inp: Seq<EntryIndex>, exp: Seq<EntryIndex>)
    requires
        with_virtuals(sig0, vs0, all), all.len() <= usize::MAX, hdr.len() <= usize::MAX,
        inp == input_indices_spec(hdr, all, all.len() as int), exp == expected_indices_spec(hdr, all, all.len() as int),
        forall|i: int| 0 <= i < sig0.len() ==> (#[trigger] sig0[i]).bits <= 64,
    ensures wf_indices_of(all, inp, exp, hdr.len() as int)
{
    lemma_bound_indices_wf_inp(hdr, sig0, vs0, all, inp);
    lemma_bound_indices_wf_exp(hdr, sig0, vs0, all, exp);
}

proof fn lemma_bound_indices_wf_inp(hdr: Seq<String>, sig0: Seq<Signal>, vs0: Seq<(VirtualSignal, core::ops::Range<usize>)>, all: Seq<Signal>, inp: Seq<EntryIndex>)
    requires
        with_virtuals(sig0, vs0, all), all.len() <= usize::MAX, hdr.len() <= usize::MAX,
        inp == input_indices_spec(hdr, all, all.len() as int),
        forall|i: int| 0 <= i < sig0.len() ==> (#[trigger] sig0[i]).bits <= 64,
    ensures forall|k: int| 0 <= k < inp.len() ==> match #[trigger] inp[k] {
        EntryIndex::Entry { entry_index, signal_index } => entry_index < hdr.len() && signal_index < all.len() && sig_is_input(all[signal_index as int]) && all[signal_index as int].bits <= 64,
        EntryIndex::Default { signal_index } => signal_index < all.len() && sig_is_input(all[signal_index as int]),
    }
{
    let n = all.len() as int; let w = hdr.len() as int;
    lemma_input_indices_spec(hdr, all, n);
    assert forall|k: int| 0 <= k < inp.len() implies match #[trigger] inp[k] {
        EntryIndex::Entry { entry_index, signal_index } => entry_index < w && signal_index < all.len() && sig_is_input(all[signal_index as int]) && all[signal_index as int].bits <= 64,
        EntryIndex::Default { signal_index } => signal_index < all.len() && sig_is_input(all[signal_index as int]),
    } by {
        let si = choose|si: int| 0 <= si < n && sig_is_input(all[si]) && inp[k] == index_for(hdr, all[si].name@, si);
        lemma_index_for(hdr, all[si].name@, si);
        if si < sig0.len() { assert(all[si] == sig0[si]); } else { assert(all[sig0.len() + (si - sig0.len())].bits == 64); }
    }
}

proof fn lemma_bound_indices_wf_exp(hdr: Seq<String>, sig0: Seq<Signal>, vs0: Seq<(VirtualSignal, core::ops::Range<usize>)>, all: Seq<Signal>, exp: Seq<EntryIndex>)
    requires
        with_virtuals(sig0, vs0, all), all.len() <= usize::MAX, hdr.len() <= usize::MAX,
        exp == expected_indices_spec(hdr, all, all.len() as int),
        forall|i: int| 0 <= i < sig0.len() ==> (#[trigger] sig0[i]).bits <= 64,
    ensures forall|k: int| 0 <= k < exp.len() ==> match #[trigger] exp[k] {
        EntryIndex::Entry { entry_index, signal_index } => entry_index < hdr.len() && signal_index < all.len() && all[signal_index as int].bits <= 64,
        EntryIndex::Default { signal_index } => signal_index < all.len(),
    }
{
    let n = all.len() as int; let w = hdr.len() as int;
    lemma_expected_indices_spec(hdr, all, n);
    assert forall|k: int| 0 <= k < exp.len() implies match #[trigger] exp[k] {
        EntryIndex::Entry { entry_index, signal_index } => entry_index < w && signal_index < all.len() && all[signal_index as int].bits <= 64,
        EntryIndex::Default { signal_index } => signal_index < all.len(),
    } by {
        let si = choose|si: int| 0 <= si < n && !(all[si].typ is Input)
            && exp[k] == index_for(hdr, if all[si].typ is Bidirectional { all[si].name@ + "_out"@ } else { all[si].name@ }, si);
        lemma_index_for(hdr, if all[si].typ is Bidirectional { all[si].name@ + "_out"@ } else { all[si].name@ }, si);
        if si < sig0.len() { assert(all[si] == sig0[si]); } else { assert(all[sig0.len() + (si - sig0.len())].bits == 64); }
    }
}

proof fn lemma_bound_c_columns(hdr: Seq<String>, ei0: Seq<(String, core::ops::Range<usize>)>, all: Seq<Signal>, inp: Seq<EntryIndex>, exp: Seq<EntryIndex>, stmts: Seq<Stmt>)
    requires
        all.len() <= usize::MAX, hdr.len() <= usize::MAX,
        inp == input_indices_spec(hdr, all, all.len() as int),
        forall|i: int, j: int| 0 <= i < j < hdr.len() ==> (#[trigger] hdr[i])@ != (#[trigger] hdr[j])@,
        forall|k: int| 0 <= k < ei0.len() ==> input_named(all, (#[trigger] ei0[k]).0@),
        stmts_shape(stmts, hdr.len() as int, c_col_pred(hdr, ei0)),
    ensures stmts_shape(stmts, hdr.len() as int, inp_pred(Cols { inp, exp }))
{
    let n = all.len() as int; let w = hdr.len() as int;
    let cols = Cols { inp, exp };
    lemma_input_indices_spec(hdr, all, n);
    assert forall|c: int| 0 <= c < w && c_col_pred(hdr, ei0)(c) implies #[trigger] inp_pred(cols)(c) by {
        let k = choose|k: int| 0 <= k < ei0.len() && (#[trigger] ei0[k]).0@ == hdr[c]@;
        assert(input_named(all, ei0[k].0@));
        let si = choose|si: int| 0 <= si < all.len() && (#[trigger] all[si]).name@ == ei0[k].0@ && sig_is_input(all[si]);
        let kk = choose|kk: int| 0 <= kk < inp.len() && (#[trigger] inp[kk]) == index_for(hdr, all[si].name@, si);
        lemma_header_pos_distinct(hdr, c);
        lemma_index_for(hdr, all[si].name@, si);
        assert(inp[kk] matches EntryIndex::Entry { entry_index, signal_index } && entry_index == c);
    }
    lemma_stmts_shape_mono(stmts, w, c_col_pred(hdr, ei0), inp_pred(cols));
}

proof fn lemma_bound_disjoint(hdr: Seq<String>, sig0: Seq<Signal>, vs0: Seq<(VirtualSignal, core::ops::Range<usize>)>, all: Seq<Signal>, inp: Seq<EntryIndex>, exp: Seq<EntryIndex>)
    requires
        with_virtuals(sig0, vs0, all), all.len() <= usize::MAX, hdr.len() <= usize::MAX,
        inp == input_indices_spec(hdr, all, all.len() as int), exp == expected_indices_spec(hdr, all, all.len() as int),
        names_distinct(sig0),
        forall|k: int| 0 <= k < vs0.len() ==> !name_in(sig0, (#[trigger] vs0[k]).0.name@),
        forall|i: int| 0 <= i < sig0.len() ==> !((#[trigger] sig0[i]).typ is Virtual),
        forall|i: int, j: int| 0 <= i < sig0.len() && 0 <= j < sig0.len() && sig_is_input(sig0[i]) && sig0[j].typ is Bidirectional
            ==> (#[trigger] sig0[i]).name@ != (#[trigger] sig0[j]).name@ + "_out"@,
    ensures forall|c: int| !((Cols { inp, exp }).col_is_input(c) && (Cols { inp, exp }).col_is_expected(c))
{
    let n = all.len() as int;
    let cols = Cols { inp, exp };
    lemma_input_indices_spec(hdr, all, n);
    lemma_expected_indices_spec(hdr, all, n);
    assert forall|c: int| !(cols.col_is_input(c) && cols.col_is_expected(c)) by {
        if cols.col_is_input(c) && cols.col_is_expected(c) {
            let k1 = choose|k1: int| 0 <= k1 < inp.len() && ((#[trigger] inp[k1]) matches EntryIndex::Entry { entry_index, signal_index } && entry_index == c);
            let k2 = choose|k2: int| 0 <= k2 < exp.len() && ((#[trigger] exp[k2]) matches EntryIndex::Entry { entry_index, signal_index } && entry_index == c);
            let s1 = choose|s1: int| 0 <= s1 < n && sig_is_input(all[s1]) && inp[k1] == index_for(hdr, all[s1].name@, s1);
            let s2 = choose|s2: int| 0 <= s2 < n && !(all[s2].typ is Input)
                && exp[k2] == index_for(hdr, if all[s2].typ is Bidirectional { all[s2].name@ + "_out"@ } else { all[s2].name@ }, s2);
            lemma_index_for(hdr, all[s1].name@, s1);
            lemma_index_for(hdr, if all[s2].typ is Bidirectional { all[s2].name@ + "_out"@ } else { all[s2].name@ }, s2);
            if s1 >= sig0.len() { assert(all[sig0.len() + (s1 - sig0.len())].typ is Virtual); }
            assert(all[s1] == sig0[s1]);
            if all[s2].typ is Bidirectional {
                if s2 >= sig0.len() { assert(all[sig0.len() + (s2 - sig0.len())].typ is Virtual); }
                assert(all[s2] == sig0[s2]);
                assert(sig0[s1].name@ != sig0[s2].name@ + "_out"@);
            } else {
                if s2 < sig0.len() {
                    assert(all[s2] == sig0[s2]);
                    assert(s1 != s2);
                    if s1 < s2 { assert(sig0[s1].name@ != sig0[s2].name@); } else { assert(sig0[s2].name@ != sig0[s1].name@); }
                } else {
                    let kv = s2 - sig0.len();
                    assert(all[sig0.len() + kv].name@ == vs0[kv].0.name@);
                    assert(name_in(sig0, vs0[kv].0.name@));
                }
            }
        }
    }
}

proof fn lemma_bound_virtual_wf(sig0: Seq<Signal>, vs0: Seq<(VirtualSignal, core::ops::Range<usize>)>, all: Seq<Signal>)
    requires
        with_virtuals(sig0, vs0, all),
        forall|i: int| 0 <= i < sig0.len() ==> !((#[trigger] sig0[i]).typ is Virtual),
        forall|k: int| 0 <= k < vs0.len() ==> expr_wf((#[trigger] vs0[k]).0.expr),
    ensures forall|i: int| 0 <= i < all.len() ==> ((#[trigger] all[i]).typ matches SignalType::Virtual { expr } ==> expr_wf(*expr.expr))
{
    assert forall|i: int| 0 <= i < all.len() implies ((#[trigger] all[i]).typ matches SignalType::Virtual { expr } ==> expr_wf(*expr.expr)) by {
        if i >= sig0.len() { let kv = i - sig0.len(); assert(all[sig0.len() + kv].typ is Virtual); assert(expr_wf(vs0[kv].0.expr)); } else { assert(all[i] == sig0[i]); }
    }
}
