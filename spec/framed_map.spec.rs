spec fn obeys_into<T: Into<U>, U>(t: T) -> bool {
    <T as IntoSpec<U>>::obeys_into_spec()
}

// ---- FramedMap: specification at the level of the representation (values, frame_stack) ----
// Scopes (C01/C18): `values` lists bindings oldest first; `frame_stack[i]` is the length `values` had when
// frame i+1 was opened, so the innermost frame is values[frame_stack.last()..].

// [A-std] Borrow::borrow is a pure projection: the uninterpreted `borrow_spec` names its result. The
// instances used by the crate are given meaning where they are used (String/str, &str/str: view-preserving).
uninterp spec fn borrow_spec<K: ?Sized, Q: ?Sized>(k: &K) -> &Q;

// N7/N9: `x.borrow()` is emitted as `verif_borrow(&x)`; the body IS the original call.
#[verifier::external_body]
fn verif_borrow<K: std::borrow::Borrow<Q>, Q: ?Sized>(k: &K) -> (r: &Q)
    ensures r == borrow_spec::<K, Q>(k),
{
    k.borrow()
}

// [A-std] N7: `v[a..].iter_mut().find(f)` is the first element at index >= a accepted by f, as a mutable borrow
// of v (every other element unchanged). The body IS the original chain.
#[verifier::external_body]
fn verif_range_find_mut<'a, T, F: FnMut(&&'a mut T) -> bool>(v: &'a mut Vec<T>, range: core::ops::RangeFrom<usize>, f: F) -> (r: Option<&'a mut T>)
    requires
        range.start <= old(v)@.len(),
        forall|e: &'a mut T| call_requires(f, (&e,)),
    ensures
        match r {
            Some(m) => exists|i: int| range.start <= i < old(v)@.len()
                && *m == old(v)@[i] && final(v)@ == old(v)@.update(i, *final(m))
                && (exists|e: &'a mut T| *e == old(v)@[i] && call_ensures(f, (&e,), true))
                && (forall|j: int| range.start <= j < i ==> (exists|e: &'a mut T| *e == #[trigger] old(v)@[j] && call_ensures(f, (&e,), false))),
            None => final(v)@ == old(v)@
                && (forall|j: int| range.start <= j < old(v)@.len() ==> (exists|e: &'a mut T| *e == #[trigger] old(v)@[j] && call_ensures(f, (&e,), false))),
        },
{
    v[range].iter_mut().find(f)
}

/// the predicate `get` uses to select entries: the key, borrowed as Q, equals `key`
spec fn key_matches<K: std::borrow::Borrow<Q>, Q: PartialEq + ?Sized>(key: &Q) -> spec_fn(K) -> bool {
    |k: K| <Q as PartialEqSpec<Q>>::eq_spec(borrow_spec::<K, Q>(&k), key)
}

/// value of the innermost (= last) binding whose key satisfies p
spec fn lookup_by<K, V>(s: Seq<(K, V)>, p: spec_fn(K) -> bool) -> Option<V>
    decreases s.len()
{
    if s.len() == 0 { None }
    else if p(s.last().0) { Some(s.last().1) }
    else { lookup_by(s.drop_last(), p) }
}

proof fn lemma_lookup_none<K, V>(s: Seq<(K, V)>, p: spec_fn(K) -> bool)
    requires forall|i: int| 0 <= i < s.len() ==> !p(#[trigger] s[i].0)
    ensures lookup_by(s, p) == None::<V>
    decreases s.len()
{
    if s.len() > 0 { lemma_lookup_none(s.drop_last(), p); }
}

proof fn lemma_lookup_some<K, V>(s: Seq<(K, V)>, p: spec_fn(K) -> bool, j: int)
    requires 0 <= j < s.len(), p(s[j].0), forall|i: int| j < i < s.len() ==> !p(#[trigger] s[i].0)
    ensures lookup_by(s, p) == Some(s[j].1)
    decreases s.len()
{
    if j < s.len() - 1 { lemma_lookup_some(s.drop_last(), p, j); }
}

/// smallest index i >= from whose key equals `key`
spec fn find_from<K: PartialEq, V>(s: Seq<(K, V)>, from: int, key: K) -> Option<int>
    decreases s.len() - from
{
    if from < 0 || from >= s.len() { None }
    else if s[from].0.eq_spec(&key) { Some(from) }
    else { find_from(s, from + 1, key) }
}

proof fn lemma_find_from_none<K: PartialEq, V>(s: Seq<(K, V)>, from: int, key: K)
    requires 0 <= from <= s.len(), forall|i: int| from <= i < s.len() ==> !(#[trigger] s[i]).0.eq_spec(&key)
    ensures find_from(s, from, key) == None::<int>
    decreases s.len() - from
{
    if from < s.len() { lemma_find_from_none(s, from + 1, key); }
}

proof fn lemma_find_from_some<K: PartialEq, V>(s: Seq<(K, V)>, from: int, key: K, j: int)
    requires 0 <= from <= j < s.len(), s[j].0.eq_spec(&key), forall|i: int| from <= i < j ==> !(#[trigger] s[i]).0.eq_spec(&key)
    ensures find_from(s, from, key) == Some(j)
    decreases j - from
{
    if from < j { lemma_find_from_some(s, from + 1, key, j); }
}

impl<K, V> FramedMap<K, V> {
    /// representation invariant: frame boundaries are non-decreasing and within `values`
    spec fn wf(&self) -> bool {
        &&& forall|i: int| 0 <= i < self.frame_stack@.len() ==> #[trigger] self.frame_stack@[i] <= self.values@.len()
        &&& forall|i: int, j: int| 0 <= i <= j < self.frame_stack@.len() ==> self.frame_stack@[i] <= self.frame_stack@[j]
    }
    /// start of the innermost frame
    spec fn frame_start(&self) -> int {
        if self.frame_stack@.len() == 0 { 0 } else { self.frame_stack@.last() as int }
    }
}
