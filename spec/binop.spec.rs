// ---- C08: precedence table copied from the property statement (tightest first) ----
//   * / %  ;  + -  ;  << >>  ;  &  ;  ^  ;  |  ;  < > <= >=  ;  = !=
spec fn prec_spec(op: BinOp) -> u8 {
    match op {
        BinOp::Times | BinOp::Divide | BinOp::Reminder => 1,
        BinOp::Plus | BinOp::Minus => 2,
        BinOp::ShiftLeft | BinOp::ShiftRight => 3,
        BinOp::And => 4,
        BinOp::Xor => 5,
        BinOp::Or => 6,
        BinOp::LessThan | BinOp::GreaterThan | BinOp::LessThanOrEqual | BinOp::GreaterThanOrEqual => 7,
        BinOp::Equal | BinOp::NotEqual => 8,
    }
}

/// one element of the flat operator/operand sequence `a0 op1 a1 op2 a2 ...`
enum Tok { A(Expr), O(BinOp) }

impl BinOpTree {
    /// in-order reading of the tree
    spec fn flat(self) -> Seq<Tok> decreases self {
        match self {
            BinOpTree::Atom(e) => seq![Tok::A(e)],
            BinOpTree::BinOp { op, left, right } => left.flat() + seq![Tok::O(op)] + right.flat(),
            BinOpTree::Dummy => seq![],
        }
    }
    /// loosest (numerically largest) precedence level occurring in the tree, 0 for an atom
    spec fn maxp(self) -> int decreases self {
        match self {
            BinOpTree::Atom(e) => 0,
            BinOpTree::BinOp { op, left, right } => {
                let a = left.maxp(); let b = right.maxp(); let c = prec_spec(op) as int;
                if a >= b && a >= c { a } else if b >= c { b } else { c }
            }
            BinOpTree::Dummy => 0,
        }
    }
    /// "tighter binds first, equal levels associate to the left":
    /// everything in the right operand binds strictly tighter than the node's operator,
    /// everything in the left operand binds at least as tight. Together with flat() this
    /// determines the tree uniquely (lemma_unique below): it is the Cartesian tree of the
    /// operator sequence with ties resolved to the later operator.
    spec fn wf(self) -> bool decreases self {
        match self {
            BinOpTree::Atom(e) => true,
            BinOpTree::BinOp { op, left, right } =>
                left.wf() && right.wf() && right.maxp() < prec_spec(op) && left.maxp() <= prec_spec(op),
            BinOpTree::Dummy => false,
        }
    }
    /// structural image in Expr
    spec fn to_expr(self) -> Expr decreases self {
        match self {
            BinOpTree::Atom(e) => e,
            BinOpTree::BinOp { op, left, right } =>
                Expr::BinOp { op, left: Box::new(left.to_expr()), right: Box::new(right.to_expr()) },
            BinOpTree::Dummy => arbitrary(),
        }
    }

    proof fn lemma_wf_maxp(self)
        requires self.wf()
        ensures self matches BinOpTree::BinOp { op, left, right } ==> self.maxp() == prec_spec(op) as int,
            self.maxp() >= 0,
        decreases self
    {
        match self {
            BinOpTree::BinOp { op, left, right } => { left.lemma_wf_maxp(); right.lemma_wf_maxp(); }
            _ => {}
        }
    }
}
