// ---- C08: precedence table copied from the property statement (tightest first) ----
//   * / %  ;  + -  ;  << >>  ;  &  ;  ^  ;  |  ;  < > <= >=  ;  = !=
spec fn prec_spec(op: BinOp) -> u8 {
    match op {
        BinOp::Times | BinOp::Divide | BinOp::Reminder => 1,
        BinOp::Plus | BinOp::Minus => 2,
        BinOp::ShiftLeft | BinOp::ShiftRight => 3,
        BinOp::And => 4,
        BinOp::Xor => 5,
        BinOp::Or => 6,
        BinOp::LessThan | BinOp::GreaterThan | BinOp::LessThanOrEqual | BinOp::GreaterThanOrEqual => 7,
        BinOp::Equal | BinOp::NotEqual => 8,
    }
}

/// one element of the flat operator/operand sequence `a0 op1 a1 op2 a2 ...`
enum Tok { A(Expr), O(BinOp) }

impl BinOpTree {
    /// in-order reading of the tree
    spec fn flat(self) -> Seq<Tok> decreases self {
        match self {
            BinOpTree::Atom(e) => seq![Tok::A(e)],
            BinOpTree::BinOp { op, left, right } => left.flat() + seq![Tok::O(op)] + right.flat(),
            BinOpTree::Dummy => seq![],
        }
    }
    /// loosest (numerically largest) precedence level occurring in the tree, 0 for an atom
    spec fn maxp(self) -> int decreases self {
        match self {
            BinOpTree::Atom(e) => 0,
            BinOpTree::BinOp { op, left, right } => {
                let a = left.maxp(); let b = right.maxp(); let c = prec_spec(op) as int;
                if a >= b && a >= c { a } else if b >= c { b } else { c }
            }
            BinOpTree::Dummy => 0,
        }
    }
    /// "tighter binds first, equal levels associate to the left":
    /// everything in the right operand binds strictly tighter than the node's operator,
    /// everything in the left operand binds at least as tight. Together with flat() this
    /// determines the tree uniquely (lemma_unique below): it is the Cartesian tree of the
    /// operator sequence with ties resolved to the later operator.
    spec fn wf(self) -> bool decreases self {
        match self {
            BinOpTree::Atom(e) => true,
            BinOpTree::BinOp { op, left, right } =>
                left.wf() && right.wf() && right.maxp() < prec_spec(op) && left.maxp() <= prec_spec(op),
            BinOpTree::Dummy => false,
        }
    }
    /// structural image in Expr
    spec fn to_expr(self) -> Expr decreases self {
        match self {
            BinOpTree::Atom(e) => e,
            BinOpTree::BinOp { op, left, right } =>
                Expr::BinOp { op, left: Box::new(left.to_expr()), right: Box::new(right.to_expr()) },
            BinOpTree::Dummy => arbitrary(),
        }
    }

    proof fn lemma_wf_maxp(self)
        requires self.wf()
        ensures self matches BinOpTree::BinOp { op, left, right } ==> self.maxp() == prec_spec(op) as int,
            self.maxp() >= 0,
        decreases self
    {
        match self {
            BinOpTree::BinOp { op, left, right } => { left.lemma_wf_maxp(); right.lemma_wf_maxp(); }
            _ => {}
        }
    }
}

// ---- C08: wf() + flat() determine the tree (the grouping the precedence rules prescribe is unique) ----
impl BinOpTree {
    /// every operator of the tree binds at least as tight as maxp says
    proof fn lemma_maxp_bound(self, i: int)
        requires self.wf(), 0 <= i < self.flat().len(), self.flat()[i] is O
        ensures prec_spec(self.flat()[i]->O_0) as int <= self.maxp()
        decreases self
    {
        match self {
            BinOpTree::BinOp { op, left, right } => {
                let l = left.flat(); let r = right.flat();
                if i < l.len() { assert(self.flat()[i] == l[i]); left.lemma_maxp_bound(i); }
                else if i == l.len() { assert(self.flat()[i] == Tok::O(op)); }
                else { assert(self.flat()[i] == r[i - l.len() - 1]); right.lemma_maxp_bound(i - l.len() - 1); }
            }
            BinOpTree::Atom(e) => { assert(self.flat()[i] == Tok::A(e)); }
            BinOpTree::Dummy => {}
        }
    }
    proof fn lemma_flat_nonempty(self)
        requires self.wf()
        ensures self.flat().len() >= 1, self is Atom ==> (self.flat().len() == 1 && self.flat()[0] is A)
        decreases self
    {
        match self {
            BinOpTree::BinOp { op, left, right } => { left.lemma_flat_nonempty(); right.lemma_flat_nonempty(); }
            _ => {}
        }
    }
    /// two well-formed trees over the same operand / operator sequence are the same tree
    proof fn lemma_unique(self, other: BinOpTree)
        requires self.wf(), other.wf(), self.flat() == other.flat()
        ensures self == other
        decreases self
    {
        self.lemma_flat_nonempty(); other.lemma_flat_nonempty();
        match (self, other) {
            (BinOpTree::Atom(e1), BinOpTree::Atom(e2)) => { assert(self.flat()[0] == Tok::A(e1)); assert(other.flat()[0] == Tok::A(e2)); }
            (BinOpTree::BinOp { op: o1, left: l1, right: r1 }, BinOpTree::BinOp { op: o2, left: l2, right: r2 }) => {
                let f = self.flat();
                let p1 = l1.flat().len() as int; let p2 = l2.flat().len() as int;
                assert(f[p1] == Tok::O(o1));
                assert(other.flat()[p2] == Tok::O(o2));
                l1.lemma_flat_nonempty(); r1.lemma_flat_nonempty(); l2.lemma_flat_nonempty(); r2.lemma_flat_nonempty();
                if p1 < p2 {
                    // o1 sits in other's left part, o2 in self's right part
                    assert(l2.flat()[p1] == other.flat()[p1]);
                    l2.lemma_maxp_bound(p1);
                    assert(r1.flat()[p2 - p1 - 1] == f[p2]);
                    r1.lemma_maxp_bound(p2 - p1 - 1);
                    assert(false);
                }
                if p2 < p1 {
                    assert(l1.flat()[p2] == f[p2]);
                    l1.lemma_maxp_bound(p2);
                    assert(r2.flat()[p1 - p2 - 1] == other.flat()[p1]);
                    r2.lemma_maxp_bound(p1 - p2 - 1);
                    assert(false);
                }
                assert(l1.flat() =~= f.take(p1));
                assert(l2.flat() =~= f.take(p1));
                assert(r1.flat() =~= f.skip(p1 + 1));
                assert(r2.flat() =~= f.skip(p1 + 1));
                l1.lemma_unique(*l2);
                r1.lemma_unique(*r2);
                assert(o1 == o2);
            }
            (BinOpTree::Atom(e1), BinOpTree::BinOp { op, left, right }) => {
                left.lemma_flat_nonempty(); right.lemma_flat_nonempty();
                assert(false);
            }
            (BinOpTree::BinOp { op, left, right }, BinOpTree::Atom(e2)) => {
                left.lemma_flat_nonempty(); right.lemma_flat_nonempty();
                assert(false);
            }
            _ => {}
        }
    }
}
