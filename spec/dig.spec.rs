// ---- C16: the part of dig::File::parse that is plain Rust (everything after the XML walk), load_test, load_test_by_name ----

// [A-header] the header names of a test source are what `HeaderParser::new(src).parse()` returns (None: it fails). The header
// parser has no input but the text; what it returns for which text is C11/C19's business (units parser / parser_scope).
uninterp spec fn header_names(src: Seq<char>) -> Option<Seq<String>>;

// N9 [A-header]: `HeaderParser::new(&src).parse().map(|(signals, _)| signals)` is emitted as `verif_header_names(&src)`
#[verifier::external_body]
fn verif_header_names(src: &String) -> (r: Result<Vec<String>, ParseError>)
    ensures
        match r {
            Ok(v) => header_names(src@) == Some(v@),
            Err(_) => header_names(src@) is None,
        },
{
    unimplemented!()
}

spec fn ends_with(s: Seq<char>, suf: Seq<char>) -> bool {
    s.len() >= suf.len() && s.subrange(s.len() - suf.len(), s.len() as int) == suf
}

// N9 [A-std]: `name.strip_suffix(suf)` on a String is emitted as `verif_strip_suffix(&name, suf)`: the text in front of the suffix, if it ends so
#[verifier::external_body]
fn verif_strip_suffix<'a>(s: &'a String, suf: &str) -> (r: Option<&'a str>)
    ensures
        match r {
            Some(p) => s@ == p@ + suf@,
            None => !ends_with(s@, suf@),
        },
{
    s.strip_suffix(suf)
}

// N7 [A-std]: `signals.iter().map(|s| s.name.clone()).collect::<HashSet<String>>()` is emitted as `verif_name_set(&signals)`: the set of the names
#[verifier::external_body]
fn verif_name_set(signals: &Vec<Signal>) -> (r: HashSet<String>)
    ensures
        forall|k: String| r@.contains(k) <==> pin_labelled(signals@, k@),
{
    signals.iter().map(|s| s.name.clone()).collect()
}

// N7 [A-std]: `a.difference(&b).cloned().collect::<Vec<_>>().join(", ")`: some String (only used inside the error message)
#[verifier::external_body]
fn verif_missing_names(a: &HashSet<String>, b: &HashSet<String>) -> (r: String)
{
    a.difference(b).cloned().collect::<Vec<_>>().join(", ")
}

// [A-std] HashSet::is_subset
#[verifier::external_body]
fn verif_is_subset(a: &HashSet<String>, b: &HashSet<String>) -> (r: bool)
    ensures r == a@.subset_of(b@),
{
    a.is_subset(b)
}

// N7 [A-std]: a `for` loop over a HashSet by value is emitted as a loop over `verif_set_into_vec(set)`: the elements of the set, each
// once, in the (unspecified) order the set's iterator yields them
#[verifier::external_body]
fn verif_set_into_vec(s: HashSet<String>) -> (r: Vec<String>)
    ensures
        forall|k: String| s@.contains(k) <==> (exists|i: int| 0 <= i < r@.len() && r@[i] == k),
        forall|i: int, j: int| 0 <= i < j < r@.len() ==> r@[i] != r@[j],
{
    s.into_iter().collect()
}

// [A-std] N7: `v.iter_mut().find(f)`: the first element accepted by f, as a mutable borrow of v (every other element unchanged)
#[verifier::external_body]
fn verif_find_mut<'a, T, F: FnMut(&&'a mut T) -> bool>(v: &'a mut Vec<T>, f: F) -> (r: Option<&'a mut T>)
    requires
        forall|e: &'a mut T| call_requires(f, (&e,)),
    ensures
        match r {
            Some(m) => exists|i: int| 0 <= i < old(v)@.len()
                && *m == old(v)@[i] && final(v)@ == old(v)@.update(i, *final(m))
                && (exists|e: &'a mut T| *e == old(v)@[i] && call_ensures(f, (&e,), true))
                && (forall|j: int| 0 <= j < i ==> (exists|e: &'a mut T| *e == #[trigger] old(v)@[j] && call_ensures(f, (&e,), false))),
            None => final(v)@ == old(v)@
                && (forall|j: int| 0 <= j < old(v)@.len() ==> (exists|e: &'a mut T| *e == #[trigger] old(v)@[j] && call_ensures(f, (&e,), false))),
        },
{
    v.iter_mut().find(f)
}

/// some pin carries this label
spec fn pin_labelled(signals: Seq<Signal>, name: Seq<char>) -> bool {
    exists|i: int| 0 <= i < signals.len() && (#[trigger] signals[i]).name@ == name
}

/// some input pin carries this label
spec fn input_labelled(signals: Seq<Signal>, name: Seq<char>) -> bool {
    exists|i: int| 0 <= i < signals.len() && (#[trigger] signals[i]).name@ == name && signals[i].typ is Input
}

/// index of the first pin with this label
spec fn first_labelled(signals: Seq<Signal>, name: Seq<char>, i: int) -> bool {
    0 <= i < signals.len() && signals[i].name@ == name && (forall|j: int| 0 <= j < i ==> (#[trigger] signals[j]).name@ != name)
}

/// one of the first n names is `name`
spec fn name_done(bv: Seq<String>, n: int, name: Seq<char>) -> bool {
    exists|j: int| 0 <= j < n && (#[trigger] bv[j])@ == name
}

// [A-prefix] precondition of the fragment parse_tail, not checked by any contract: the signal list the dropped front part of File::parse builds
/// from the XML: the input pins first, then the output pins (`inputs_signals.chain(output_signals)`)
spec fn inputs_first(signals: Seq<Signal>) -> bool {
    &&& forall|i: int| 0 <= i < signals.len() ==> (#[trigger] signals[i]).typ is Input || signals[i].typ is Output
    &&& forall|i: int, j: int| 0 <= i < j < signals.len() && (#[trigger] signals[j]).typ is Input ==> (#[trigger] signals[i]).typ is Input
}

/// trigger carrier
spec fn uses_col(t: int, c: int) -> bool { true }

spec fn hdr(tests: Seq<TestCaseDescription>, t: int) -> Seq<String> {
    header_names(tests[t].source@).unwrap()
}

/// column c of the header of test t has been looked at when the two loops stand at (tt, cc)
spec fn seen(tests: Seq<TestCaseDescription>, tt: int, cc: int, t: int, c: int) -> bool {
    0 <= t < tests.len() && header_names(tests[t].source@) is Some && 0 <= c < hdr(tests, t).len() && (t < tt || (t == tt && c < cc))
}

spec fn header_seen(tests: Seq<TestCaseDescription>, tt: int, cc: int, h: Seq<char>) -> bool {
    exists|t: int, c: int| #[trigger] uses_col(t, c) && seen(tests, tt, cc, t, c) && hdr(tests, t)[c]@ == h
}

/// the header of some test has a column called `h`
spec fn header_used(tests: Seq<TestCaseDescription>, h: Seq<char>) -> bool {
    header_seen(tests, tests.len() as int, 0, h)
}

spec fn all_headers_parse(tests: Seq<TestCaseDescription>) -> bool {
    forall|t: int| 0 <= t < tests.len() ==> header_names(#[trigger] tests[t].source@) is Some
}

/// `h` is `<name>_out` for an input `<name>`, and no pin is itself labelled `h`
spec fn is_marker(signals: Seq<Signal>, h: Seq<char>) -> bool {
    ends_with(h, "_out"@) && !pin_labelled(signals, h) && input_labelled(signals, h.subrange(0, h.len() - 4))
}

/// C16: a test header uses `<name>_out`, `<name>` is an input and no pin is itself labelled `<name>_out`
spec fn marked_bidir(signals: Seq<Signal>, tests: Seq<TestCaseDescription>, name: Seq<char>) -> bool {
    header_used(tests, name + "_out"@) && !pin_labelled(signals, name + "_out"@) && input_labelled(signals, name)
}

/// C16: some header column is neither such a marker nor the label of a pin
spec fn missing_name(signals: Seq<Signal>, tests: Seq<TestCaseDescription>) -> bool {
    exists|h: Seq<char>| #[trigger] header_used(tests, h) && !pin_labelled(signals, h) && !is_marker(signals, h)
}

proof fn lemma_out_suffix(p: Seq<char>)
    ensures
        "_out"@.len() == 4,
        ends_with(p + "_out"@, "_out"@),
        (p + "_out"@).subrange(0, (p + "_out"@).len() - 4) == p,
{
    reveal_strlit("_out");
    let h = p + "_out"@;
    assert(h.subrange(h.len() - 4, h.len() as int) =~= "_out"@);
    assert(h.subrange(0, h.len() - 4) =~= p);
}

proof fn lemma_out_suffix_all()
    ensures
        "_out"@.len() == 4,
        forall|p: Seq<char>| ends_with(#[trigger] (p + "_out"@), "_out"@) && (p + "_out"@).subrange(0, (p + "_out"@).len() - 4) == p,
{
    assert forall|p: Seq<char>| ends_with(#[trigger] (p + "_out"@), "_out"@) && (p + "_out"@).subrange(0, (p + "_out"@).len() - 4) == p by {
        lemma_out_suffix(p);
    }
    lemma_out_suffix(Seq::empty());
}

proof fn lemma_ends_with_split(h: Seq<char>)
    requires ends_with(h, "_out"@)
    ensures h == h.subrange(0, h.len() - 4) + "_out"@
{
    reveal_strlit("_out");
    assert(h =~= h.subrange(0, h.len() - 4) + h.subrange(h.len() - 4, h.len() as int));
}

proof fn lemma_seen_step(tests: Seq<TestCaseDescription>, tt: int, cc: int)
    requires 0 <= tt < tests.len(), header_names(tests[tt].source@) is Some, 0 <= cc < hdr(tests, tt).len()
    ensures forall|x: Seq<char>| #[trigger] header_seen(tests, tt, cc + 1, x) <==> (header_seen(tests, tt, cc, x) || x == hdr(tests, tt)[cc]@)
{
    assert forall|x: Seq<char>| #[trigger] header_seen(tests, tt, cc + 1, x) <==> (header_seen(tests, tt, cc, x) || x == hdr(tests, tt)[cc]@) by {
        if header_seen(tests, tt, cc + 1, x) {
            let (t, c) = choose|t: int, c: int| #[trigger] uses_col(t, c) && seen(tests, tt, cc + 1, t, c) && hdr(tests, t)[c]@ == x;
            if t == tt && c == cc { } else { assert(uses_col(t, c) && seen(tests, tt, cc, t, c)); }
        }
        if header_seen(tests, tt, cc, x) {
            let (t, c) = choose|t: int, c: int| #[trigger] uses_col(t, c) && seen(tests, tt, cc, t, c) && hdr(tests, t)[c]@ == x;
            assert(uses_col(t, c) && seen(tests, tt, cc + 1, t, c));
        }
        if x == hdr(tests, tt)[cc]@ {
            assert(uses_col(tt, cc) && seen(tests, tt, cc + 1, tt, cc));
        }
    }
}

proof fn lemma_seen_next_test(tests: Seq<TestCaseDescription>, tt: int)
    requires 0 <= tt < tests.len(), header_names(tests[tt].source@) is Some
    ensures forall|x: Seq<char>| #[trigger] header_seen(tests, tt + 1, 0, x) <==> header_seen(tests, tt, hdr(tests, tt).len() as int, x)
{
    assert forall|x: Seq<char>| #[trigger] header_seen(tests, tt + 1, 0, x) <==> header_seen(tests, tt, hdr(tests, tt).len() as int, x) by {
        if header_seen(tests, tt + 1, 0, x) {
            let (t, c) = choose|t: int, c: int| #[trigger] uses_col(t, c) && seen(tests, tt + 1, 0, t, c) && hdr(tests, t)[c]@ == x;
            assert(uses_col(t, c) && seen(tests, tt, hdr(tests, tt).len() as int, t, c));
        }
        if header_seen(tests, tt, hdr(tests, tt).len() as int, x) {
            let (t, c) = choose|t: int, c: int| #[trigger] uses_col(t, c) && seen(tests, tt, hdr(tests, tt).len() as int, t, c) && hdr(tests, t)[c]@ == x;
            assert(uses_col(t, c) && seen(tests, tt + 1, 0, t, c));
        }
    }
}

proof fn lemma_seen_none(tests: Seq<TestCaseDescription>)
    ensures forall|x: Seq<char>| !#[trigger] header_seen(tests, 0, 0, x)
{
}

// ---- load_test / load_test_by_name ----

// [A-det] parsing and binding are functions of their arguments (safe Rust without global or interior state); what they compute is
// C09..C12/C19 (parsing) and C11 (binding). `with_source` attaches the source text to an error and keeps it an error of the same type.
uninterp spec fn spec_parse(src: Seq<char>) -> Result<ParsedTestCase, ParseError>;
uninterp spec fn spec_bind(p: ParsedTestCase, signals: Seq<Signal>) -> Result<TestCase, SignalError>;

/// C16: `r` is what parsing source n and binding it to the file's signals gives (an error of the matching kind, or that test case)
spec fn loads(f: File, n: int, r: Result<TestCase, LoadTestError>) -> bool {
    match spec_parse(f.test_cases@[n].source@) {
        Err(_) => r matches Err(LoadTestError::ParseError(_)),
        Ok(p) => match spec_bind(p, f.signals@) {
            Err(_) => r matches Err(LoadTestError::SignalError(_)),
            Ok(tc) => r == Ok::<TestCase, LoadTestError>(tc),
        },
    }
}

/// index of the first test with this label
spec fn first_named(tests: Seq<TestCaseDescription>, name: Seq<char>, i: int) -> bool {
    0 <= i < tests.len() && tests[i].name@ == name && (forall|j: int| 0 <= j < i ==> (#[trigger] tests[j]).name@ != name)
}

// N9 [A-std]: `<&str>.to_string()` is emitted as `verif_str_to_string(<&str>)`; it copies the contents. The body IS the original call.
#[verifier::external_body]
fn verif_str_to_string(s: &str) -> (r: String)
    ensures r@ == s@,
{
    s.to_string()
}

impl ParsedTestCase {
    #[verifier::external_body]
    fn from_str(s: &str) -> (r: Result<ParsedTestCase, ParseError>)
        ensures r == spec_parse(s@),
    { unimplemented!() }

    #[verifier::external_body]
    fn with_signals(self, signals: Vec<Signal>) -> (r: Result<TestCase, SignalError>)
        ensures r == spec_bind(self, signals@),
    { unimplemented!() }
}
impl ParseError {
    #[verifier::external_body]
    fn with_source(self, src: VerifNamedSource) -> (r: ParseError) { unimplemented!() }
}
impl SignalError {
    #[verifier::external_body]
    fn with_source(self, src: VerifNamedSource) -> (r: SignalError) { unimplemented!() }
}
impl TestCaseDescription {
    #[verifier::external_body]
    fn named_source(&self) -> (r: VerifNamedSource) { unimplemented!() }
}
// [A-derive] #[derive(Clone)] on Signal yields an equal value
impl Clone for Signal {
    #[verifier::external_body]
    fn clone(&self) -> (r: Self)
        ensures r == *self,
    { unimplemented!() }
}
