// ---- driver history (C02, C04, C13) and output attribution (C03, C14) ----

ghost struct InS { signal: Signal, value: InputValue, changed: bool }
ghost struct OutS { signal: Signal, value: OutputValue }
spec fn ins_view(s: Seq<InputEntry>) -> Seq<InS> { s.map_values(|e: InputEntry| InS { signal: *e.signal, value: e.value, changed: e.changed }) }
spec fn outs_view(s: Seq<OutputEntry>) -> Seq<OutS> { s.map_values(|e: OutputEntry| OutS { signal: *e.signal, value: e.value }) }

/// one driver call as the iterator's bookkeeping records it: what was sent, which method, what came back
enum Call<E> {
    Read { inputs: Seq<InS>, answer: Result<Seq<OutS>, E> },
    Write { inputs: Seq<InS>, answer: Result<(), E> },
}
impl<E> Call<E> {
    spec fn inputs(self) -> Seq<InS> { match self { Call::Read { inputs, answer } => inputs, Call::Write { inputs, answer } => inputs } }
    /// the outputs an output-reading call answered with
    spec fn read_ok(self) -> Option<Seq<OutS>> {
        match self { Call::Read { inputs, answer } => match answer { Ok(o) => Some(o), Err(_) => None }, _ => None }
    }
    spec fn err(self) -> Option<E> {
        match self {
            Call::Read { inputs, answer } => match answer { Ok(_) => None, Err(e) => Some(e) },
            Call::Write { inputs, answer } => match answer { Ok(_) => None, Err(e) => Some(e) },
        }
    }
}

/// l1 is l0 followed by exactly one more call
spec fn one_call<E>(l0: Seq<Call<E>>, l1: Seq<Call<E>>) -> bool { l1.len() == l0.len() + 1 && l1.drop_last() =~= l0 }

/// [A-driver] the only thing assumed of a driver: each call is appended to its (ghost) history with what was sent
/// and what it answered. Nothing is assumed about the answers.
trait TestDriver {
    type Error;

    spec fn log(&self) -> Seq<Call<Self::Error>>;

    fn write_input_and_read_output(&mut self, inputs: &[InputEntry<'_>]) -> (r: Result<Vec<OutputEntry<'_>>, Self::Error>)
        ensures
            final(self).log() == old(self).log().push(Call::Read { inputs: ins_view(inputs@),
                answer: match r { Ok(v) => Ok(outs_view(v@)), Err(e) => Err(e) } });

    // the default body (forwarding to the call above) is the repository's text and is verified against this contract;
    // an overriding driver records a Write
//@fn TestDriver.write_input
}

impl<'a> DataRowIteratorTestData<'a> {
    spec fn exp_signal(&self, i: int) -> Signal { self.signals@[index_signal(self.expected_indices@[i]) as int] }

    /// output_indices describes the layout `outs` (the driver's first answer) for this test (C03):
    /// virtual signals carry their expression; every other expected signal points at a position whose signal
    /// equals it (which one, if the driver lists a signal twice, is not the statement's business), or at nothing when the driver does not supply it
    spec fn outidx_ok(&self, oi: Seq<OutputEntryIndex<'a>>, outs: Seq<OutS>) -> bool {
        oi.len() == self.expected_indices@.len() && forall|i: int| 0 <= i < oi.len() ==> match #[trigger] oi[i] {
            OutputEntryIndex::Virtual(e) => self.exp_signal(i).typ matches SignalType::Virtual { expr } && *e == *expr.expr,
            OutputEntryIndex::Output(n) => !(self.exp_signal(i).typ is Virtual) && n < outs.len() && outs[n as int].signal == self.exp_signal(i),
            OutputEntryIndex::None => !(self.exp_signal(i).typ is Virtual) && (forall|m: int| 0 <= m < outs.len() ==> (#[trigger] outs[m]).signal != self.exp_signal(i)),
        }
    }
    /// the signal with index `read` has an expected entry that points into the driver's answer
    spec fn read_found(&self, oi: Seq<OutputEntryIndex<'a>>, read: usize) -> bool {
        exists|i: int| 0 <= i < oi.len() && (#[trigger] oi[i]) is Output && index_signal(self.expected_indices@[i]) == read
    }
    /// some non-virtual expected signal with index `read` occurs in the answer `outs`
    spec fn supplied(&self, outs: Seq<OutS>, read: usize) -> bool {
        exists|i: int, m: int| 0 <= i < self.expected_indices@.len() && index_signal(#[trigger] self.expected_indices@[i]) == read
            && 0 <= m < outs.len() && (#[trigger] outs[m]).signal == self.exp_signal(i) && !(self.exp_signal(i).typ is Virtual)
    }
}

/// the context as a virtual-signal expression sees it: the alternative (empty) variable map in place
spec fn swapped(c: EvalContext) -> EvalContext {
    EvalContext { vars: c.alt_vars, alt_vars: c.vars, outputs: c.outputs, rng: c.rng, seed: c.seed }
}

// N7 [A-std]: `a.iter().zip(b).map(f).collect::<Result<Vec<_>, _>>()`: f applied to the pairs (a[i], b[i]) in order; every
// result Ok -> the Vec of the values; otherwise the Err of one of them. (vstd's map/collect lemmas do not apply when
// the item type mentions a type parameter of the enclosing function, here the driver's error type.)
#[verifier::external_body]
fn verif_zip_try_map<A, B, R, X, F: FnMut((&A, &B)) -> Result<R, X>>(a: &[A], b: &Vec<B>, f: F) -> (r: Result<Vec<R>, X>)
    requires
        forall|i: int| 0 <= i < a@.len() && i < b@.len() ==> call_requires(f, ((&a@[i], &b@[i]),)),
    ensures
        match r {
            Ok(v) => v@.len() == (if a@.len() <= b@.len() { a@.len() } else { b@.len() })
                && (forall|i: int| 0 <= i < v@.len() ==> call_ensures(f, ((&a@[i], &b@[i]),), Ok::<R, X>(#[trigger] v@[i]))),
            Err(e) => exists|i: int| 0 <= i < a@.len() && i < b@.len() && call_ensures(f, ((&#[trigger] a@[i], &b@[i]),), Err::<R, X>(e)),
        },
{
    unimplemented!()
}

impl TestCase {
    spec fn cols(&self) -> Cols { Cols { inp: self.input_indices@, exp: self.expected_indices@ } }
    /// what binding establishes about an accepted test (C11), for rows of width w
    spec fn wf_w(&self, w: int) -> bool {
        &&& stmts_wf(self.stmts@)
        &&& stmts_shape(self.stmts@, w, inp_pred(self.cols()))
        &&& wf_indices_of(self.signals@, self.input_indices@, self.expected_indices@, w)
        &&& (forall|c: int| !(self.cols().col_is_input(c) && self.cols().col_is_expected(c)))
        &&& (forall|j: int| 0 <= j < self.read_outputs@.len() ==> (#[trigger] self.read_outputs@[j]) < self.signals@.len())
        &&& (forall|i: int| 0 <= i < self.signals@.len() ==> ((#[trigger] self.signals@[i]).typ matches SignalType::Virtual { expr } ==> expr_wf(*expr.expr)))
    }
    spec fn wf(&self) -> bool { exists|w: int| self.wf_w(w) }
}

impl<'a, 'b, T: TestDriver> DataRowIterator<'a, 'b, T> {
    /// structure invariant of the iterator
    #[verifier::prophetic]
    spec fn it_inv(&self) -> bool {
        &&& self.test_data.td_inv()
        &&& self.ctx.wf()
        // virtual signals see no variables (C14): the alternative variable map stays empty
        &&& self.ctx.alt_vars.values@.len() == 0
        &&& self.test_data.output_indices@.len() == self.test_data.expected_indices@.len()
        &&& (forall|i: int| 0 <= i < self.test_data.output_indices@.len() ==> ((#[trigger] self.test_data.output_indices@[i]) matches OutputEntryIndex::Output(n) ==> n < self.test_data.num_outputs))
        &&& (forall|i: int| 0 <= i < self.test_data.output_indices@.len() ==> ((#[trigger] self.test_data.output_indices@[i]) matches OutputEntryIndex::Virtual(e) ==> expr_wf(*e)))
    }
}

/// the value the answer `outs` gives for the output called `name` (a later entry of the same name wins)
spec fn last_out_named(outs: Seq<OutS>, name: Seq<char>) -> Option<OutputValue>
    decreases outs.len()
{
    if outs.len() == 0 { None }
    else if outs.last().signal.name@ == name { Some(outs.last().value) }
    else { last_out_named(outs.drop_last(), name) }
}
proof fn lemma_last_out_named(v: Seq<OutputEntry>, name: Seq<char>)
    ensures last_output_named(v, name) == last_out_named(outs_view(v), name)
    decreases v.len()
{
    if v.len() > 0 {
        assert(outs_view(v).drop_last() =~= outs_view(v.drop_last()));
        lemma_last_out_named(v.drop_last(), name);
    }
}
