// [A-derive] `#[derive(Clone)]` on DataEntry yields an equal value; `#[derive(PartialEq, Eq)]` on DataEntry and Signal compares structurally (Strings by contents, which is
// value equality under the String model). The derived impls are not in /repo's text; these stand in for them.
impl PartialEq for DataEntry {
    #[verifier::external_body]
    fn eq(&self, other: &Self) -> (r: bool) { unimplemented!() }
}
impl PartialEqSpecImpl for DataEntry {
    open spec fn obeys_eq_spec() -> bool { true }
    closed spec fn eq_spec(&self, other: &Self) -> bool { *self == *other }
}
impl Clone for DataEntry {
    #[verifier::external_body]
    fn clone(&self) -> (r: Self)
        ensures r == *self,
    { unimplemented!() }
}
impl PartialEq for Signal {
    #[verifier::external_body]
    fn eq(&self, other: &Self) -> (r: bool) { unimplemented!() }
}
impl PartialEqSpecImpl for Signal {
    open spec fn obeys_eq_spec() -> bool { true }
    closed spec fn eq_spec(&self, other: &Self) -> bool { *self == *other }
}
#[verifier::external_body]
proof fn axiom_derived_eq()
    ensures
        forall|a: DataEntry, b: DataEntry| #[trigger] <DataEntry as PartialEqSpec<DataEntry>>::eq_spec(&a, &b) == (a == b),
        forall|a: Signal, b: Signal| #[trigger] <Signal as PartialEqSpec<Signal>>::eq_spec(&a, &b) == (a == b),
        <&DataEntry as PartialEqSpec<&DataEntry>>::obeys_eq_spec(),
        forall|a: &DataEntry, b: &DataEntry| #[trigger] <&DataEntry as PartialEqSpec<&DataEntry>>::eq_spec(&a, &b) == (*a == *b),
        <&Signal as PartialEqSpec<&Signal>>::obeys_eq_spec(),
        forall|a: &Signal, b: &Signal| #[trigger] <&Signal as PartialEqSpec<&Signal>>::eq_spec(&a, &b) == (*a == *b),
{
}
