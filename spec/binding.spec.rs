// ---- C11 / C06: binding a parsed test to a signal list ----

// [A-std] a HashSet<&String> is a set of string contents: &String obeys the hash-table key model and looking a String up finds the reference with that content
#[verifier::external_body]
proof fn axiom_hashset_ref_string()
    ensures
        vstd::std_specs::hash::obeys_key_model::<&String>(),
        forall|m: Set<&String>, k: &String| #[trigger] vstd::std_specs::hash::set_contains_borrowed_key(m, k) <==> m.contains(k),
{
}

// N9 [A-std]: `v.drain(..)` consumed by a for loop is emitted as `verif_drain_all(&mut v)`: all elements, in order; v is left empty
// (also when the loop is left early: Drain's destructor removes the rest)
#[verifier::external_body]
fn verif_drain_all<T>(v: &mut Vec<T>) -> (r: Vec<T>)
    ensures r@ == old(v)@, final(v)@.len() == 0,
{
    v.drain(..).collect()
}

// N4 [A-std]: `s + "lit"` on a String is emitted as verif_concat(s, "lit"): concatenation
#[verifier::external_body]
fn verif_concat(s: String, t: &str) -> (r: String)
    ensures r@ == s@ + t@,
{
    s + t
}

// N7 [A-std]: `a.iter().chain(b).any(f)`: some element of a or of b is accepted by f
#[verifier::external_body]
fn verif_chain_any<T, F: FnMut(&T) -> bool>(a: &[T], b: &[T], f: F) -> (r: bool)
    requires
        forall|i: int| 0 <= i < a@.len() ==> call_requires(f, (&a@[i],)),
        forall|i: int| 0 <= i < b@.len() ==> call_requires(f, (&b@[i],)),
    ensures
        r ==> ((exists|i: int| 0 <= i < a@.len() && call_ensures(f, (&#[trigger] a@[i],), true)) || (exists|i: int| 0 <= i < b@.len() && call_ensures(f, (&#[trigger] b@[i],), true))),
        !r ==> ((forall|i: int| 0 <= i < a@.len() ==> call_ensures(f, (&#[trigger] a@[i],), false)) && (forall|i: int| 0 <= i < b@.len() ==> call_ensures(f, (&#[trigger] b@[i],), false))),
{
    unimplemented!()
}

spec fn names_distinct(signals: Seq<Signal>) -> bool {
    forall|i: int, j: int| 0 <= i < j < signals.len() ==> (#[trigger] signals[i]).name@ != (#[trigger] signals[j]).name@
}
spec fn name_in(signals: Seq<Signal>, name: Seq<char>) -> bool {
    exists|i: int| 0 <= i < signals.len() && (#[trigger] signals[i]).name@ == name
}
/// first header column called `name`
spec fn header_pos(hdr: Seq<String>, name: Seq<char>) -> Option<int>
    decreases hdr.len()
{
    if hdr.len() == 0 { None } else {
        match header_pos(hdr.drop_last(), name) {
            Some(c) => Some(c),
            None => if hdr.last()@ == name { Some(hdr.len() - 1) } else { None },
        }
    }
}
spec fn index_for(hdr: Seq<String>, name: Seq<char>, si: int) -> EntryIndex {
    match header_pos(hdr, name) {
        Some(c) => EntryIndex::Entry { entry_index: c as usize, signal_index: si as usize },
        None => EntryIndex::Default { signal_index: si as usize },
    }
}
/// C06: one input entry per input-capable signal, in signal-list order, bound to the column of that name or defaulted
spec fn input_indices_spec(hdr: Seq<String>, signals: Seq<Signal>, n: int) -> Seq<EntryIndex>
    decreases n
{
    if n <= 0 { Seq::empty() } else {
        let p = input_indices_spec(hdr, signals, n - 1);
        if sig_is_input(signals[n - 1]) { p.push(index_for(hdr, signals[n - 1].name@, n - 1)) } else { p }
    }
}
/// C06: one expected entry per output-capable or virtual signal, in order, bound to the column `<name>` (`<name>_out` for a
/// bidirectional signal) or defaulted
spec fn expected_indices_spec(hdr: Seq<String>, signals: Seq<Signal>, n: int) -> Seq<EntryIndex>
    decreases n
{
    if n <= 0 { Seq::empty() } else {
        let p = expected_indices_spec(hdr, signals, n - 1);
        match signals[n - 1].typ {
            SignalType::Input { default } => p,
            SignalType::Bidirectional { default } => p.push(index_for(hdr, signals[n - 1].name@ + "_out"@, n - 1)),
            _ => p.push(index_for(hdr, signals[n - 1].name@, n - 1)),
        }
    }
}

proof fn lemma_header_pos_some(hdr: Seq<String>, name: Seq<char>, n: int)
    requires 0 <= n < hdr.len(), hdr[n]@ == name, forall|m: int| 0 <= m < n ==> (#[trigger] hdr[m])@ != name
    ensures header_pos(hdr, name) == Some(n)
    decreases hdr.len()
{
    if hdr.len() - 1 > n {
        lemma_header_pos_some(hdr.drop_last(), name, n);
    } else {
        lemma_header_pos_none(hdr.drop_last(), name);
    }
}
proof fn lemma_header_pos_none(hdr: Seq<String>, name: Seq<char>)
    requires forall|m: int| 0 <= m < hdr.len() ==> (#[trigger] hdr[m])@ != name
    ensures header_pos(hdr, name) is None
    decreases hdr.len()
{
    if hdr.len() > 0 { lemma_header_pos_none(hdr.drop_last(), name); }
}
proof fn lemma_header_pos_inv(hdr: Seq<String>, name: Seq<char>)
    ensures match header_pos(hdr, name) {
        Some(c) => 0 <= c < hdr.len() && hdr[c]@ == name && (forall|m: int| 0 <= m < c ==> (#[trigger] hdr[m])@ != name),
        None => forall|m: int| 0 <= m < hdr.len() ==> (#[trigger] hdr[m])@ != name,
    }
    decreases hdr.len()
{
    if hdr.len() > 0 { lemma_header_pos_inv(hdr.drop_last(), name); }
}

// N7 [A-std]: `dst.extend(src.drain(..).map(f))`: f applied to every element of src in order, the results appended to dst; src is left empty
#[verifier::external_body]
fn verif_extend_map_drain<A, B, F: FnMut(A) -> B>(dst: &mut Vec<B>, src: &mut Vec<A>, f: F)
    requires
        forall|i: int| 0 <= i < old(src)@.len() ==> call_requires(f, (old(src)@[i],)),
    ensures
        final(src)@.len() == 0,
        final(dst)@.len() == old(dst)@.len() + old(src)@.len(),
        forall|i: int| 0 <= i < old(dst)@.len() ==> #[trigger] final(dst)@[i] == old(dst)@[i],
        forall|i: int| 0 <= i < old(src)@.len() ==> call_ensures(f, (old(src)@[i],), #[trigger] final(dst)@[old(dst)@.len() + i]),
{
    unimplemented!()
}

proof fn lemma_filter_map_prefix_elems<R>(res: spec_fn(int) -> Option<R>, n: int)
    ensures forall|k: int| 0 <= k < filter_map_prefix(res, n).len() ==> (exists|i: int| 0 <= i < n && #[trigger] res(i) == Some((#[trigger] filter_map_prefix(res, n)[k])))
    decreases n
{
    if n > 0 {
        lemma_filter_map_prefix_elems(res, n - 1);
        let p = filter_map_prefix(res, n - 1);
        let f = filter_map_prefix(res, n);
        assert forall|k: int| 0 <= k < f.len() implies (exists|i: int| 0 <= i < n && #[trigger] res(i) == Some((#[trigger] f[k]))) by {
            if k < p.len() {
                assert(f[k] == p[k]);
                let i = choose|i: int| 0 <= i < n - 1 && #[trigger] res(i) == Some(p[k]);
                assert(res(i) == Some(f[k]));
            } else {
                assert(res(n - 1) == Some(f[k]));
            }
        }
    }
}

impl ParsedTestCase {
    /// column c of the header is bound by some input or expected index
    spec fn col_bound(inp: Seq<EntryIndex>, exp: Seq<EntryIndex>, c: int) -> bool {
        (Cols { inp, exp }).col_is_input(c) || (Cols { inp, exp }).col_is_expected(c)
    }
}
