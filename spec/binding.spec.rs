// ---- C11 / C06: binding a parsed test to a signal list ----

// [A-std] a HashSet<&String> is a set of string contents: &String obeys the hash-table key model and looking a String up finds the reference with that content
#[verifier::external_body]
proof fn axiom_hashset_ref_string()
    ensures
        vstd::std_specs::hash::obeys_key_model::<&String>(),
        forall|m: Set<&String>, k: &String| #[trigger] vstd::std_specs::hash::set_contains_borrowed_key(m, k) <==> m.contains(k),
{
}

// N9 [A-std]: `v.drain(..)` consumed by a for loop is emitted as `verif_drain_all(&mut v)`: all elements, in order; v is left empty
// (also when the loop is left early: Drain's destructor removes the rest)
#[verifier::external_body]
fn verif_drain_all<T>(v: &mut Vec<T>) -> (r: Vec<T>)
    ensures r@ == old(v)@, final(v)@.len() == 0,
{
    v.drain(..).collect()
}

// N4 [A-std]: `s + "lit"` on a String is emitted as verif_concat(s, "lit"): concatenation
#[verifier::external_body]
fn verif_concat(s: String, t: &str) -> (r: String)
    ensures r@ == s@ + t@,
{
    s + t
}

// N7 [A-std]: `a.iter().chain(b).any(f)`: some element of a or of b is accepted by f
#[verifier::external_body]
fn verif_chain_any<T, F: FnMut(&T) -> bool>(a: &[T], b: &[T], f: F) -> (r: bool)
    requires
        forall|i: int| 0 <= i < a@.len() ==> call_requires(f, (&a@[i],)),
        forall|i: int| 0 <= i < b@.len() ==> call_requires(f, (&b@[i],)),
    ensures
        r ==> ((exists|i: int| 0 <= i < a@.len() && call_ensures(f, (&#[trigger] a@[i],), true)) || (exists|i: int| 0 <= i < b@.len() && call_ensures(f, (&#[trigger] b@[i],), true))),
        !r ==> ((forall|i: int| 0 <= i < a@.len() ==> call_ensures(f, (&#[trigger] a@[i],), false)) && (forall|i: int| 0 <= i < b@.len() ==> call_ensures(f, (&#[trigger] b@[i],), false))),
{
    unimplemented!()
}

spec fn names_distinct(signals: Seq<Signal>) -> bool {
    forall|i: int, j: int| 0 <= i < j < signals.len() ==> (#[trigger] signals[i]).name@ != (#[trigger] signals[j]).name@
}
/// no input-capable signal carries the `_out` column name of a bidirectional signal
spec fn no_dual(signals: Seq<Signal>) -> bool {
    forall|i: int, j: int| 0 <= i < signals.len() && 0 <= j < signals.len() && sig_is_input(signals[i]) && signals[j].typ is Bidirectional
        ==> (#[trigger] signals[i]).name@ != (#[trigger] signals[j]).name@ + "_out"@
}
//@include spec/any_slice.spec.rs
spec fn name_in(signals: Seq<Signal>, name: Seq<char>) -> bool {
    exists|i: int| 0 <= i < signals.len() && (#[trigger] signals[i]).name@ == name
}
/// first header column called `name`
spec fn header_pos(hdr: Seq<String>, name: Seq<char>) -> Option<int>
    decreases hdr.len()
{
    if hdr.len() == 0 { None } else {
        match header_pos(hdr.drop_last(), name) {
            Some(c) => Some(c),
            None => if hdr.last()@ == name { Some(hdr.len() - 1) } else { None },
        }
    }
}
spec fn index_for(hdr: Seq<String>, name: Seq<char>, si: int) -> EntryIndex {
    match header_pos(hdr, name) {
        Some(c) => EntryIndex::Entry { entry_index: c as usize, signal_index: si as usize },
        None => EntryIndex::Default { signal_index: si as usize },
    }
}
/// C06: one input entry per input-capable signal, in signal-list order, bound to the column of that name or defaulted
spec fn input_indices_spec(hdr: Seq<String>, signals: Seq<Signal>, n: int) -> Seq<EntryIndex>
    decreases n
{
    if n <= 0 { Seq::empty() } else {
        let p = input_indices_spec(hdr, signals, n - 1);
        if sig_is_input(signals[n - 1]) { p.push(index_for(hdr, signals[n - 1].name@, n - 1)) } else { p }
    }
}
/// C06: one expected entry per output-capable or virtual signal, in order, bound to the column `<name>` (`<name>_out` for a
/// bidirectional signal) or defaulted
spec fn expected_indices_spec(hdr: Seq<String>, signals: Seq<Signal>, n: int) -> Seq<EntryIndex>
    decreases n
{
    if n <= 0 { Seq::empty() } else {
        let p = expected_indices_spec(hdr, signals, n - 1);
        match signals[n - 1].typ {
            SignalType::Input { default } => p,
            SignalType::Bidirectional { default } => p.push(index_for(hdr, signals[n - 1].name@ + "_out"@, n - 1)),
            _ => p.push(index_for(hdr, signals[n - 1].name@, n - 1)),
        }
    }
}

proof fn lemma_header_pos_some(hdr: Seq<String>, name: Seq<char>, n: int)
    requires 0 <= n < hdr.len(), hdr[n]@ == name, forall|m: int| 0 <= m < n ==> (#[trigger] hdr[m])@ != name
    ensures header_pos(hdr, name) == Some(n)
    decreases hdr.len()
{
    if hdr.len() - 1 > n {
        lemma_header_pos_some(hdr.drop_last(), name, n);
    } else {
        lemma_header_pos_none(hdr.drop_last(), name);
    }
}
proof fn lemma_header_pos_none(hdr: Seq<String>, name: Seq<char>)
    requires forall|m: int| 0 <= m < hdr.len() ==> (#[trigger] hdr[m])@ != name
    ensures header_pos(hdr, name) is None
    decreases hdr.len()
{
    if hdr.len() > 0 { lemma_header_pos_none(hdr.drop_last(), name); }
}
proof fn lemma_header_pos_inv(hdr: Seq<String>, name: Seq<char>)
    ensures match header_pos(hdr, name) {
        Some(c) => 0 <= c < hdr.len() && hdr[c]@ == name && (forall|m: int| 0 <= m < c ==> (#[trigger] hdr[m])@ != name),
        None => forall|m: int| 0 <= m < hdr.len() ==> (#[trigger] hdr[m])@ != name,
    }
    decreases hdr.len()
{
    if hdr.len() > 0 {
        lemma_header_pos_inv(hdr.drop_last(), name);
        let d = hdr.drop_last();
        match header_pos(d, name) {
            Some(c) => { assert(hdr[c] == d[c]); assert forall|m: int| 0 <= m < c implies (#[trigger] hdr[m])@ != name by { assert(hdr[m] == d[m]); } }
            None => { assert forall|m: int| 0 <= m < d.len() implies (#[trigger] hdr[m])@ != name by { assert(hdr[m] == d[m]); } }
        }
    }
}

// N7 [A-std]: `dst.extend(src.drain(..).map(f))`: f applied to every element of src in order, the results appended to dst; src is left empty
#[verifier::external_body]
fn verif_extend_map_drain<A, B, F: FnMut(A) -> B>(dst: &mut Vec<B>, src: &mut Vec<A>, f: F)
    requires
        forall|i: int| 0 <= i < old(src)@.len() ==> call_requires(f, (old(src)@[i],)),
    ensures
        final(src)@.len() == 0,
        final(dst)@.len() == old(dst)@.len() + old(src)@.len(),
        forall|i: int| 0 <= i < old(dst)@.len() ==> #[trigger] final(dst)@[i] == old(dst)@[i],
        forall|i: int| 0 <= i < old(src)@.len() ==> call_ensures(f, (old(src)@[i],), #[trigger] final(dst)@[old(dst)@.len() + i]),
{
    unimplemented!()
}

proof fn lemma_filter_map_prefix_elems<R>(res: spec_fn(int) -> Option<R>, n: int)
    ensures forall|k: int| 0 <= k < filter_map_prefix(res, n).len() ==> (exists|i: int| 0 <= i < n && #[trigger] res(i) == Some((#[trigger] filter_map_prefix(res, n)[k])))
    decreases n
{
    if n > 0 {
        lemma_filter_map_prefix_elems(res, n - 1);
        let p = filter_map_prefix(res, n - 1);
        let f = filter_map_prefix(res, n);
        assert forall|k: int| 0 <= k < f.len() implies (exists|i: int| 0 <= i < n && #[trigger] res(i) == Some((#[trigger] f[k]))) by {
            if k < p.len() {
                assert(f[k] == p[k]);
                let i = choose|i: int| 0 <= i < n - 1 && #[trigger] res(i) == Some(p[k]);
                assert(res(i) == Some(f[k]));
            } else {
                assert(res(n - 1) == Some(f[k]));
            }
        }
    }
}

impl ParsedTestCase {
    /// column c of the header is bound by some input or expected index
    spec fn col_bound(inp: Seq<EntryIndex>, exp: Seq<EntryIndex>, c: int) -> bool {
        (Cols { inp, exp }).col_is_input(c) || (Cols { inp, exp }).col_is_expected(c)
    }
}

spec fn input_named(signals: Seq<Signal>, name: Seq<char>) -> bool {
    exists|i: int| 0 <= i < signals.len() && (#[trigger] signals[i]).name@ == name && sig_is_input(signals[i])
}
spec fn output_named(signals: Seq<Signal>, name: Seq<char>) -> bool {
    exists|i: int| 0 <= i < signals.len() && (#[trigger] signals[i]).name@ == name && sig_is_output(signals[i])
}

// N7 [A-std]: `s.iter().position(f)` on a slice is emitted as `verif_position_slice(s, f)`
#[verifier::external_body]
fn verif_position_slice<T, F: FnMut(&T) -> bool>(xs: &[T], f: F) -> (r: Option<usize>)
    requires
        forall|i: int| 0 <= i < xs@.len() ==> call_requires(f, (&xs@[i],)),
    ensures
        xs@.len() <= usize::MAX,
        match r {
            Some(n) => n < xs@.len() && call_ensures(f, (&xs@[n as int],), true)
                && (forall|m: int| 0 <= m < n ==> call_ensures(f, (&#[trigger] xs@[m],), false)),
            None => forall|m: int| 0 <= m < xs@.len() ==> call_ensures(f, (&#[trigger] xs@[m],), false),
        },
{
    xs.iter().position(f)
}

/// (type anchor for `let mut read_outputs = vec![];`, whose element type rustc infers only later)
spec fn uv(v: Vec<usize>) -> Seq<usize> { v@ }

/// column c carries the name of one of the recorded C columns
spec fn c_col_pred(hdr: Seq<String>, ei: Seq<(String, core::ops::Range<usize>)>) -> spec_fn(int) -> bool {
    |c: int| 0 <= c < hdr.len() && exists|k: int| 0 <= k < ei.len() && (#[trigger] ei[k]).0@ == hdr[c]@
}

impl ParsedTestCase {
    /// what the parser establishes about a parsed test (C12 / C11 parser side)
    spec fn parsed_wf(&self) -> bool {
        &&& self.signal_spans@.len() == self.signals@.len()
        // header names are pairwise distinct
        &&& (forall|i: int, j: int| 0 <= i < j < self.signals@.len() ==> (#[trigger] self.signals@[i])@ != (#[trigger] self.signals@[j])@)
        // known functions with the right arity, bits width <= 64
        &&& stmts_wf(self.stmts@)
        // every data row is as wide as the header and every column holding C is recorded in expected_inputs
        &&& stmts_shape(self.stmts@, self.signals@.len() as int, c_col_pred(self.signals@, self.expected_inputs@))
        &&& (forall|k: int| 0 <= k < self.virtual_signals@.len() ==> expr_wf((#[trigger] self.virtual_signals@[k]).0.expr))
    }
}

/// the signal list after the declared virtual signals have been appended (C14: 64 bits wide)
spec fn with_virtuals(signals: Seq<Signal>, vs: Seq<(VirtualSignal, core::ops::Range<usize>)>, all: Seq<Signal>) -> bool {
    all.len() == signals.len() + vs.len()
        && (forall|i: int| 0 <= i < signals.len() ==> #[trigger] all[i] == signals[i])
        && (forall|k: int| 0 <= k < vs.len() ==> (#[trigger] all[signals.len() + k]).name@ == vs[k].0.name@ && all[signals.len() + k].bits == 64
            && (all[signals.len() + k].typ matches SignalType::Virtual { expr } && *expr.expr == vs[k].0.expr))
}

// membership facts about the index lists
proof fn lemma_input_indices_spec(hdr: Seq<String>, signals: Seq<Signal>, n: int)
    requires 0 <= n <= signals.len()
    ensures
        forall|k: int| 0 <= k < input_indices_spec(hdr, signals, n).len() ==> (exists|si: int| 0 <= si < n && sig_is_input(signals[si])
            && (#[trigger] input_indices_spec(hdr, signals, n)[k]) == index_for(hdr, signals[si].name@, si)),
        forall|si: int| 0 <= si < n && sig_is_input(#[trigger] signals[si]) ==> (exists|k: int| 0 <= k < input_indices_spec(hdr, signals, n).len()
            && (#[trigger] input_indices_spec(hdr, signals, n)[k]) == index_for(hdr, signals[si].name@, si)),
    decreases n
{
    if n > 0 {
        lemma_input_indices_spec(hdr, signals, n - 1);
        let p = input_indices_spec(hdr, signals, n - 1);
        let f = input_indices_spec(hdr, signals, n);
        if sig_is_input(signals[n - 1]) {
            assert(f == p.push(index_for(hdr, signals[n - 1].name@, n - 1)));
            assert forall|k: int| 0 <= k < f.len() implies (exists|si: int| 0 <= si < n && sig_is_input(signals[si]) && (#[trigger] f[k]) == index_for(hdr, signals[si].name@, si)) by {
                if k < p.len() {
                    let si = choose|si: int| 0 <= si < n - 1 && sig_is_input(signals[si]) && p[k] == index_for(hdr, signals[si].name@, si);
                    assert(f[k] == p[k]);
                } else { assert(f[k] == index_for(hdr, signals[n - 1].name@, n - 1)); }
            }
            assert forall|si: int| 0 <= si < n && sig_is_input(#[trigger] signals[si]) implies (exists|k: int| 0 <= k < f.len() && (#[trigger] f[k]) == index_for(hdr, signals[si].name@, si)) by {
                if si < n - 1 {
                    let k = choose|k: int| 0 <= k < p.len() && (#[trigger] p[k]) == index_for(hdr, signals[si].name@, si);
                    assert(f[k] == p[k]);
                } else { assert(f[p.len() as int] == index_for(hdr, signals[si].name@, si)); }
            }
        } else {
            assert(f == p);
        }
    }
}

proof fn lemma_expected_indices_spec(hdr: Seq<String>, signals: Seq<Signal>, n: int)
    requires 0 <= n <= signals.len()
    ensures
        forall|k: int| 0 <= k < expected_indices_spec(hdr, signals, n).len() ==> (exists|si: int| 0 <= si < n && !(signals[si].typ is Input)
            && (#[trigger] expected_indices_spec(hdr, signals, n)[k]) == index_for(hdr, if signals[si].typ is Bidirectional { signals[si].name@ + "_out"@ } else { signals[si].name@ }, si)),
    decreases n
{
    if n > 0 {
        lemma_expected_indices_spec(hdr, signals, n - 1);
        let p = expected_indices_spec(hdr, signals, n - 1);
        let f = expected_indices_spec(hdr, signals, n);
        if !(signals[n - 1].typ is Input) {
            let nm = if signals[n - 1].typ is Bidirectional { signals[n - 1].name@ + "_out"@ } else { signals[n - 1].name@ };
            assert(f == p.push(index_for(hdr, nm, n - 1)));
            assert forall|k: int| 0 <= k < f.len() implies (exists|si: int| 0 <= si < n && !(signals[si].typ is Input)
                && (#[trigger] f[k]) == index_for(hdr, if signals[si].typ is Bidirectional { signals[si].name@ + "_out"@ } else { signals[si].name@ }, si)) by {
                if k < p.len() {
                    let si = choose|si: int| 0 <= si < n - 1 && !(signals[si].typ is Input)
                        && p[k] == index_for(hdr, if signals[si].typ is Bidirectional { signals[si].name@ + "_out"@ } else { signals[si].name@ }, si);
                    assert(f[k] == p[k]);
                } else { assert(f[k] == index_for(hdr, nm, n - 1)); }
            }
        } else {
            assert(f == p);
        }
    }
}

impl TestCase {
    spec fn cols(&self) -> Cols { Cols { inp: self.input_indices@, exp: self.expected_indices@ } }
    /// what binding establishes about an accepted test (C11), for rows of width w
    spec fn wf_w(&self, w: int) -> bool {
        &&& stmts_wf(self.stmts@)
        &&& stmts_shape(self.stmts@, w, inp_pred(self.cols()))
        &&& wf_indices_of(self.signals@, self.input_indices@, self.expected_indices@, w)
        &&& (forall|c: int| !(self.cols().col_is_input(c) && self.cols().col_is_expected(c)))
        &&& (forall|j: int| 0 <= j < self.read_outputs@.len() ==> (#[trigger] self.read_outputs@[j]) < self.signals@.len())
        &&& (forall|i: int| 0 <= i < self.signals@.len() ==> ((#[trigger] self.signals@[i]).typ matches SignalType::Virtual { expr } ==> expr_wf(*expr.expr)))
    }
}

proof fn lemma_with_virtuals_unique(signals: Seq<Signal>, vs: Seq<(VirtualSignal, core::ops::Range<usize>)>, a: Seq<Signal>, b: Seq<Signal>)
    requires with_virtuals(signals, vs, a), with_virtuals(signals, vs, b),
        forall|s1: String, s2: String| #![trigger s1@, s2@] s1@ == s2@ ==> s1 == s2,
    ensures a == b
{
    assert forall|i: int| 0 <= i < a.len() implies a[i] == b[i] by {
        if i >= signals.len() {
            let k = i - signals.len();
            assert(a[signals.len() + k].name@ == b[signals.len() + k].name@);
            assert(a[i].name == b[i].name);
        }
    }
    assert(a =~= b);
}

/// C11: the test and the signal list fit together (all = the signal list with the declared virtual signals appended)
spec fn fits(t: ParsedTestCase, signals: Seq<Signal>, all: Seq<Signal>) -> bool {
    &&& names_distinct(signals)
    // `<B>_out` is the header name under which a bidirectional signal B receives its expected values: it counts as one of
    // the names in use, so no input-capable signal may be called that (F-dual, DESIGN 11.5)
    &&& no_dual(signals)
    &&& (forall|k: int| 0 <= k < t.virtual_signals@.len() ==> !name_in(signals, (#[trigger] t.virtual_signals@[k]).0.name@))
    &&& (forall|c: int| 0 <= c < t.signals@.len() ==> ParsedTestCase::col_bound(input_indices_spec(t.signals@, all, all.len() as int), expected_indices_spec(t.signals@, all, all.len() as int), c))
    &&& (forall|k: int| 0 <= k < t.expected_inputs@.len() ==> input_named(all, (#[trigger] t.expected_inputs@[k]).0@))
    &&& (forall|k: int| 0 <= k < t.read_outputs@.len() ==> output_named(all, (#[trigger] t.read_outputs@[k]).0@))
}

/// the header column an Entry index points at carries the name it was looked up by, and lies inside the header
proof fn lemma_index_for(hdr: Seq<String>, name: Seq<char>, si: int)
    requires hdr.len() <= usize::MAX
    ensures match index_for(hdr, name, si) {
        EntryIndex::Entry { entry_index, signal_index } => header_pos(hdr, name) == Some(entry_index as int) && 0 <= entry_index < hdr.len()
            && hdr[entry_index as int]@ == name && (0 <= si <= usize::MAX ==> signal_index == si),
        EntryIndex::Default { signal_index } => header_pos(hdr, name) is None && (0 <= si <= usize::MAX ==> signal_index == si),
    }
{
    lemma_header_pos_inv(hdr, name);
}

/// with distinct header names the first column called hdr[c] is c
proof fn lemma_header_pos_distinct(hdr: Seq<String>, c: int)
    requires 0 <= c < hdr.len(), forall|i: int, j: int| 0 <= i < j < hdr.len() ==> (#[trigger] hdr[i])@ != (#[trigger] hdr[j])@
    ensures header_pos(hdr, hdr[c]@) == Some(c)
{
    lemma_header_pos_some(hdr, hdr[c]@, c);
}

