// ---- C15: the static driver and the static iterator ----

// N10: `pub struct Driver;` is emitted as an opaque type: its ghost call history (A-driver) is not part of its (empty)
// run-time representation. [A-driver] like every driver it appends each call to that history; nothing else about it is used.
#[verifier::external_body]
struct Driver { _opaque: () }

impl TestDriver for Driver {
    type Error = NoError;
    uninterp spec fn log(&self) -> Seq<Call<NoError>>;

    #[verifier::external_body]
    fn write_input_and_read_output(&mut self, inputs: &[InputEntry<'_>]) -> (r: Result<Vec<OutputEntry<'_>>, NoError>)
    { unimplemented!() }

    #[verifier::external_body]
    fn write_input(&mut self, inputs: &[InputEntry<'_>]) -> (r: Result<(), NoError>)
    { unimplemented!() }
}

// [A-derive] `enum NoError {}` has no values
#[verifier::external_body]
proof fn axiom_no_error(e: NoError)
    ensures false
{
}

// N10: `Box::leak(Box::new(Driver))` is emitted as verif_leak_static_driver(): a fresh, never freed static driver
#[verifier::external_body]
fn verif_leak_static_driver() -> (r: &'static mut Driver)
{
    unimplemented!()
}

// [A-derive] #[derive(Debug)] on IterationError (needed by Result::expect in try_iter_static; formatting is outside every property)
impl<T> std::fmt::Debug for IterationError<T> { #[verifier::external_body] fn fmt(&self, f: &mut std::fmt::Formatter<'_>) -> std::fmt::Result { unimplemented!() } }
impl<'a, 'b, T: TestDriver> std::fmt::Debug for DataRowIterator<'a, 'b, T> { #[verifier::external_body] fn fmt(&self, f: &mut std::fmt::Formatter<'_>) -> std::fmt::Result { unimplemented!() } }

//@item src/static_test.rs | struct StaticDataRow
//@item src/static_test.rs | struct StaticDataRowIterator

/// C15: the static image of a dynamic row: inputs and line as they are, of every output its signal and expected value
spec fn static_image<'a>(row: DataRow<'a>, s: StaticDataRow<'a>) -> bool {
    &&& s.inputs == row.inputs && s.line == row.line
    &&& s.expected@.len() == row.outputs@.len()
    &&& forall|i: int| 0 <= i < s.expected@.len() ==> (#[trigger] s.expected@[i]).signal == row.outputs@[i].signal && s.expected@[i].value == row.outputs@[i].expected
}

// N7 [A-std]: `xs.iter().map(f).collect::<Vec<_>>()`: the images in order
#[verifier::external_body]
fn verif_map_collect<T, R, F: FnMut(&T) -> R>(xs: &Vec<T>, f: F) -> (r: Vec<R>)
    requires
        forall|i: int| 0 <= i < xs@.len() ==> call_requires(f, (&xs@[i],)),
    ensures
        r@.len() == xs@.len(),
        forall|i: int| 0 <= i < xs@.len() ==> call_ensures(f, (&xs@[i],), #[trigger] r@[i]),
{
    xs.iter().map(f).collect::<Vec<_>>()
}
