// [A-std] core::mem::replace stores `src` and returns the previous value
pub assume_specification<T>[ core::mem::replace::<T> ](dest: &mut T, src: T) -> (r: T)
    ensures *final(dest) == src, r == *old(dest);
