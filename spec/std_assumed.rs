// [A-std] core::mem::replace stores `src` and returns the previous value
pub assume_specification<T>[ core::mem::replace::<T> ](dest: &mut T, src: T) -> (r: T)
    ensures *final(dest) == src, r == *old(dest);

// [A-std] N9: `v.extend(w)` for a Vec `w` is emitted as `verif_vec_extend(&mut v, w)`: appends w's elements in order. The body IS the original call.
#[verifier::external_body]
fn verif_vec_extend<T>(v: &mut Vec<T>, other: Vec<T>)
    ensures final(v)@ == old(v)@ + other@, other@ == final(v)@.skip(old(v)@.len() as int),
{
    v.extend(other)
}

// [A-std] Iterator::count on a Filter adapter: the number of items it would still yield
pub assume_specification<I: Iterator, P: FnMut(&I::Item) -> bool>[ <core::iter::Filter<I, P> as Iterator>::count ](it: core::iter::Filter<I, P>) -> (r: usize)
    ensures it.obeys_prophetic_iter_laws() ==> r == it.remaining().len();

// [A-std] Range<usize>::clone yields an equal range
pub assume_specification<Idx: Clone>[ <core::ops::Range<Idx> as Clone>::clone ](r: &core::ops::Range<Idx>) -> (c: core::ops::Range<Idx>)
    ensures (forall|a: Idx, b: Idx| call_ensures(Idx::clone, (&a,), b) ==> a == b) ==> c == *r;

// [A-std] Range::is_empty: `!(start < end)`; for usize bounds `<` is the order of the integers
pub mod verif_range {
    use vstd::prelude::*;
    pub uninterp spec fn range_lt<Idx>(a: Idx, b: Idx) -> bool;
    pub broadcast axiom fn axiom_range_lt_usize(a: usize, b: usize)
        ensures #[trigger] range_lt::<usize>(a, b) == (a < b);
}
use verif_range::*;
broadcast use verif_range::axiom_range_lt_usize;
pub assume_specification<Idx: PartialOrd<Idx>>[ core::ops::Range::<Idx>::is_empty ](r: &core::ops::Range<Idx>) -> (b: bool)
    where Idx: PartialOrd<Idx>,
    ensures b == !range_lt(r.start, r.end);
