#![allow(unused_imports, dead_code, unused_variables, unused_mut, unreachable_code, unused_parens, unused_braces, non_snake_case)]
use vstd::prelude::*;
use vstd::std_specs::convert::*;
use vstd::std_specs::iter::IteratorSpec;
