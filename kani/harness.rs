// ---- Kani harnesses over the scalar leaf functions extracted above (written by hand from the statements of C07/C08/C03) ----
// Every harness is loop-free over full-domain symbolic inputs: a SUCCESSFUL result is a complete proof of that leaf clause,
// a FAILED one comes with a concrete counterexample (concrete playback), which tools/kani_leaf.py decodes and the check
// turns into a test program replayed on the real crate. Reference semantics are spelled with 128-bit arithmetic so that they
// do not share code with the functions under test.

#[cfg(kani)]
mod verif_kani {
    use super::*;

    fn wrap(x: i128) -> i64 { x as i64 }

    macro_rules! binop {
        ($name:ident, $op:expr, |$l:ident, $r:ident| $spec:expr) => {
            #[kani::proof]
            fn $name() {
                let $l: i64 = kani::any();
                let $r: i64 = kani::any();
                let got = $op.eval($l, $r);
                let want: i64 = $spec;
                assert!(got.is_ok());
                assert!(got.ok() == Some(want));
            }
        };
    }
    binop!(c08_plus, BinOp::Plus, |l, r| wrap(l as i128 + r as i128));
    binop!(c08_minus, BinOp::Minus, |l, r| wrap(l as i128 - r as i128));
    binop!(c08_shl, BinOp::ShiftLeft, |l, r| wrap(((l as i128) << (r & 63)) & 0xffff_ffff_ffff_ffff));
    binop!(c08_shr, BinOp::ShiftRight, |l, r| wrap((l as i128) >> (r & 63)));
    binop!(c08_and, BinOp::And, |l, r| wrap((l as i128) & (r as i128)));
    binop!(c08_or, BinOp::Or, |l, r| wrap((l as i128) | (r as i128)));
    binop!(c08_xor, BinOp::Xor, |l, r| wrap((l as i128) ^ (r as i128)));
    binop!(c08_eq, BinOp::Equal, |l, r| if (l as i128) == (r as i128) { 1 } else { 0 });
    binop!(c08_ne, BinOp::NotEqual, |l, r| if (l as i128) != (r as i128) { 1 } else { 0 });
    binop!(c08_lt, BinOp::LessThan, |l, r| if (l as i128) < (r as i128) { 1 } else { 0 });
    binop!(c08_gt, BinOp::GreaterThan, |l, r| if (l as i128) > (r as i128) { 1 } else { 0 });
    binop!(c08_le, BinOp::LessThanOrEqual, |l, r| if (l as i128) <= (r as i128) { 1 } else { 0 });
    binop!(c08_ge, BinOp::GreaterThanOrEqual, |l, r| if (l as i128) >= (r as i128) { 1 } else { 0 });

    // multiplication, division and remainder are expensive for the SAT back end over 64 x 64 bits. They are checked
    // BOUNDED (labelled so in the evidence): symbolic operands with |value| < 2^12, where the defining equations can be
    // stated without overflow, plus the concrete boundary cases the statement names (wrapping, MIN / -1, signs).
    fn small(x: i64) -> bool { x > -4096 && x < 4096 }
    #[kani::proof]
    fn c08_times_bounded() {
        let l: i64 = kani::any();
        let r: i64 = kani::any();
        kani::assume(small(l) && small(r));
        assert!(BinOp::Times.eval(l, r).ok() == Some(l * r));
        assert!(BinOp::Times.eval(i64::MAX, 2).ok() == Some(-2));
        assert!(BinOp::Times.eval(i64::MIN, -1).ok() == Some(i64::MIN));
        assert!(BinOp::Times.eval(i64::MAX, i64::MAX).ok() == Some(1));
        assert!(BinOp::Times.eval(i64::MIN, 2).ok() == Some(0));
        assert!(BinOp::Times.eval(3037000500, 3037000500).ok() == Some(-9223372036709301616));
    }
    #[kani::proof]
    fn c08_div_rem_bounded() {
        let l: i64 = kani::any();
        let r: i64 = kani::any();
        kani::assume(small(l) && small(r));
        let q = BinOp::Divide.eval(l, r);
        let m = BinOp::Reminder.eval(l, r);
        if r == 0 {
            assert!(q.is_err() && m.is_err());
        } else {
            let (q, m) = (q.unwrap(), m.unwrap());
            // truncation toward zero: l = q * r + m, |m| < |r|, m has the sign of l (or is 0)
            assert!(q * r + m == l);
            assert!((if m < 0 { -m } else { m }) < (if r < 0 { -r } else { r }));
            assert!(m == 0 || (m < 0) == (l < 0));
        }
        assert!(BinOp::Divide.eval(i64::MIN, -1).ok() == Some(i64::MIN));
        assert!(BinOp::Reminder.eval(i64::MIN, -1).ok() == Some(0));
        assert!(BinOp::Divide.eval(i64::MAX, -1).ok() == Some(-i64::MAX));
        assert!(BinOp::Divide.eval(i64::MIN, 2).ok() == Some(-4611686018427387904));
        assert!(BinOp::Divide.eval(7, -2).ok() == Some(-3));
        assert!(BinOp::Reminder.eval(-7, 2).ok() == Some(-1));
    }
    #[kani::proof]
    fn c08_div_rem_zero() {
        let l: i64 = kani::any();
        assert!(BinOp::Divide.eval(l, 0).is_err());
        assert!(BinOp::Reminder.eval(l, 0).is_err());
    }

    #[kani::proof]
    fn c08_unary() {
        let v: i64 = kani::any();
        assert!(UnaryOp::Minus.eval(v) == wrap(-(v as i128)));
        assert!(UnaryOp::LogicalNot.eval(v) == if v == 0 { 1 } else { 0 });
        assert!(UnaryOp::BinaryNot.eval(v) == wrap(-(v as i128) - 1));
    }

    // C07: reduction to the low `bits` bits, 1 <= bits <= 64
    #[kani::proof]
    fn c07_mask() {
        let n: i64 = kani::any();
        let bits: usize = kani::any();
        kani::assume(bits >= 1 && bits <= 64);
        let want: i64 = if bits == 64 { n } else { ((n as i128) & ((1i128 << bits) - 1)) as i64 };
        assert!(n & bit_mask(bits) == want);
    }

    // C03: verdict rule
    #[kani::proof]
    fn c03_check() {
        let e: ExpectedValue = match kani::any::<u8>() % 3 { 0 => ExpectedValue::Value(kani::any()), 1 => ExpectedValue::X, _ => ExpectedValue::Z };
        let o: OutputValue = match kani::any::<u8>() % 3 { 0 => OutputValue::Value(kani::any()), 1 => OutputValue::X, _ => OutputValue::Z };
        let want = match (e, o) {
            (ExpectedValue::X, _) => true,
            (ExpectedValue::Z, OutputValue::Z) => true,
            (ExpectedValue::Value(a), OutputValue::Value(b)) => a == b,
            _ => false,
        };
        assert!(e.check(o) == want);
    }
}
