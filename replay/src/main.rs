//! Replays a scenario against the real crate through its public API and prints what happened as JSON.
//!
//! usage: verif_replay <scenario-file>
//! scenario file (line based, so that no JSON parser is needed):
//!   signal <in|out|bidir> <name> <bits> [default|Z]
//!   driver <const N | echo | z | x | none>          (how outputs are produced; default const 0)
//!   maxrows <n>
//!   program
//!   <program text, verbatim, to the end of the file>
use digital_test_runner::{InputEntry, InputValue, OutputEntry, OutputValue, ParsedTestCase, Signal, SignalType, TestDriver};
use std::panic::{catch_unwind, AssertUnwindSafe};

#[derive(Debug)]
struct DrvErr;
impl std::fmt::Display for DrvErr {
    fn fmt(&self, f: &mut std::fmt::Formatter<'_>) -> std::fmt::Result { write!(f, "drv") }
}
impl std::error::Error for DrvErr {}

struct Drv<'s> { signals: &'s [Signal], mode: String, calls: usize }
impl<'s> TestDriver for Drv<'s> {
    type Error = DrvErr;
    fn write_input_and_read_output(&mut self, inputs: &[InputEntry<'_>]) -> Result<Vec<OutputEntry<'_>>, DrvErr> {
        self.calls += 1;
        let mut out = vec![];
        if self.mode == "none" { return Ok(out); }
        if self.mode == "dupdrop" {
            // first answer lists the first output twice; later answers list every output once
            let outs: Vec<&Signal> = self.signals.iter().filter(|s| s.is_output()).collect();
            if self.calls == 1 { if let Some(f) = outs.first() { out.push(OutputEntry { signal: f, value: OutputValue::Value(1) }); } }
            for s in outs { out.push(OutputEntry { signal: s, value: OutputValue::Value(1) }); }
            return Ok(out);
        }
        if self.mode.starts_with("fail ") {
            let n: usize = self.mode[5..].parse().unwrap_or(1);
            if self.calls == n { return Err(DrvErr); }
        }
        for s in self.signals {
            if s.is_output() {
                let value = if self.mode == "z" { OutputValue::Z } else if self.mode == "x" { OutputValue::X }
                    else if self.mode == "echo" {
                        let sum: i64 = inputs.iter().filter_map(|i| i.value.value()).fold(0i64, |a, b| a.wrapping_add(b));
                        OutputValue::Value(sum)
                    } else {
                        OutputValue::Value(self.mode.strip_prefix("const ").and_then(|n| n.parse().ok()).unwrap_or(0))
                    };
                out.push(OutputEntry { signal: s, value });
            }
        }
        Ok(out)
    }
}

fn esc(s: &str) -> String { s.replace('\\', "\\\\").replace('"', "\\\"").replace('\n', "\\n") }

fn main() {
    let path = std::env::args().nth(1).expect("scenario file");
    let text = std::fs::read_to_string(&path).expect("read scenario");
    let mut signals = vec![];
    let mut mode = "const 0".to_string();
    let mut maxrows = 64usize;
    let mut program = String::new();
    let mut in_prog = false;
    for line in text.split_inclusive('\n') {
        if in_prog { program.push_str(line); continue; }
        let l = line.trim();
        let w: Vec<&str> = l.split_whitespace().collect();
        if w.is_empty() { continue; }
        match w[0] {
            "signal" => {
                let bits: usize = w[3].parse().unwrap();
                let def = if w.len() > 4 { if w[4] == "Z" { InputValue::Z } else { InputValue::Value(w[4].parse().unwrap()) } } else { InputValue::Value(0) };
                signals.push(match w[1] {
                    "in" => Signal { name: w[2].into(), bits, typ: SignalType::Input { default: def } },
                    "out" => Signal { name: w[2].into(), bits, typ: SignalType::Output },
                    _ => Signal { name: w[2].into(), bits, typ: SignalType::Bidirectional { default: def } },
                });
            }
            "driver" => mode = w[1..].join(" "),
            "maxrows" => maxrows = w[1].parse().unwrap(),
            "program" => in_prog = true,
            _ => {}
        }
    }
    std::panic::set_hook(Box::new(|_| {}));
    let mut o = String::from("{");
    let parsed = catch_unwind(|| program.parse::<ParsedTestCase>());
    let parsed = match parsed {
        Err(p) => { println!("{{\"stage\":\"parse\",\"outcome\":\"panic\",\"message\":\"{}\"}}", esc(&panic_msg(p))); return; }
        Ok(Err(e)) => { println!("{{\"stage\":\"parse\",\"outcome\":\"error\",\"message\":\"{}\",\"spans\":\"{:?}\"}}", esc(&format!("{:?}", e)), e.at); return; }
        Ok(Ok(p)) => p,
    };
    let sigs = signals.clone();
    let tc = match catch_unwind(AssertUnwindSafe(|| parsed.with_signals(sigs))) {
        Err(p) => { println!("{{\"stage\":\"bind\",\"outcome\":\"panic\",\"message\":\"{}\"}}", esc(&panic_msg(p))); return; }
        Ok(Err(e)) => { println!("{{\"stage\":\"bind\",\"outcome\":\"error\",\"message\":\"{}\"}}", esc(&format!("{:?}", e))); return; }
        Ok(Ok(t)) => t,
    };
    o.push_str(&format!("\"signals\":\"{}\",", esc(&tc.signals.iter().map(|s| s.name.clone()).collect::<Vec<_>>().join(" "))));
    let mut drv = Drv { signals: &tc.signals, mode, calls: 0 };
    let res = catch_unwind(AssertUnwindSafe(|| {
        let mut rows = vec![];
        let it = match tc.try_iter(&mut drv) { Ok(it) => it, Err(e) => return (rows, Some(format!("construct: {:?}", e))) };
        for (n, row) in it.enumerate() {
            if n >= maxrows { rows.push("...".to_string()); break; }
            match row {
                Ok(r) => rows.push(format!("line {} in [{}] out [{}]", r.line,
                    r.inputs.iter().map(|i| format!("{}={}", i.signal.name, i.value)).collect::<Vec<_>>().join(" "),
                    r.outputs.iter().map(|x| format!("{}={}/{}", x.signal.name, x.output, x.expected)).collect::<Vec<_>>().join(" "))),
                Err(e) => { return (rows, Some(format!("row error: {:?}", e))); }
            }
        }
        (rows, None)
    }));
    match res {
        Err(p) => println!("{{\"stage\":\"run\",\"outcome\":\"panic\",\"message\":\"{}\"}}", esc(&panic_msg(p))),
        Ok((rows, err)) => {
            o.push_str("\"stage\":\"run\",\"outcome\":");
            o.push_str(if err.is_some() { "\"error-item\"" } else { "\"ok\"" });
            o.push_str(&format!(",\"nrows\":{},\"rows\":[{}]", rows.len(), rows.iter().map(|r| format!("\"{}\"", esc(r))).collect::<Vec<_>>().join(",")));
            if let Some(e) = err { o.push_str(&format!(",\"message\":\"{}\"", esc(&e))); }
            o.push('}');
            println!("{}", o);
        }
    }
}

fn panic_msg(p: Box<dyn std::any::Any + Send>) -> String {
    if let Some(s) = p.downcast_ref::<&str>() { s.to_string() } else if let Some(s) = p.downcast_ref::<String>() { s.clone() } else { "panic".into() }
}
