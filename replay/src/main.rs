//! Replays a scenario against the real crate through its public API and prints what happened as one JSON line.
//!
//! usage: verif_replay <scenario-file>
//! scenario file (line based):
//!   signal <in|out|bidir> <name> <bits> [default|Z]
//!   driver value <const N | idx | echo | z | x | seq V1 V2 ..>   how output values are produced (default const 0)
//!          seq: the value of every output in call k is Vk (a number, z or x); the last one repeats
//!          idx: value = 100 * (position of the signal in the signal list + 1) + call number
//!   driver layout <fwd | rev | none | only NAME..>  order / subset of the outputs in every answer (default fwd)
//!   driver deviate <swap|drop|dup|dupfirst> <N>     from call N on (dupfirst: only in call N): change the layout
//!   driver failat <N> [<M> ..]                      calls N, M, .. return an error
//!   driver failfrom <N>                             every call from call N on returns an error
//!   driver override_write                           the driver implements write_input itself (logged as W)
//!   maxrows <n>
//!   vars                                            report vars() after every row
//!   continue                                        keep calling next() after an error item (recorded as an ERR row)
//!   rerun                                           C15: parse and bind the text a second time ("reparse_equal"), iterate the test a
//!                                                   second time with a fresh driver of the same behaviour ("rerun_same"), and run two
//!                                                   iterators over the one test in lock step ("interleaved_same"); rows are compared
//!                                                   with the first run
//!   verdicts                                        append to every row ` pass [..] fail [..] unchecked [..]`: the names of the entries
//!                                                   with check() true / false, the names returned by failing_outputs() must equal
//!                                                   the `fail` list (else `failing_outputs-differs`), and !is_checked()
//!   static                                          also run try_iter_static() and report "static": refused | the rows as
//!                                                   `line L in [..] exp [Y=e ..]`, and "dynproj": the dynamic rows in that form
//!   expect ...                                      (ignored here; read by tools/scenarios.py)
//!   program
//!   <program text, verbatim, to the end of the file>
use digital_test_runner::{
    InputEntry, InputValue, OutputEntry, OutputValue, ParsedTestCase, Signal, SignalType, TestDriver,
};
use std::panic::{catch_unwind, AssertUnwindSafe};

#[derive(Debug)]
struct DrvErr(usize);
impl std::fmt::Display for DrvErr {
    fn fmt(&self, f: &mut std::fmt::Formatter<'_>) -> std::fmt::Result {
        write!(f, "drv{}", self.0)
    }
}
impl std::error::Error for DrvErr {}

#[derive(Clone, Default)]
struct Cfg {
    value: String,
    layout: String,
    deviate: Option<(String, usize)>,
    failat: Vec<usize>,
    failfrom: Option<usize>,
    override_write: bool,
}

struct Drv<'s> {
    signals: &'s [Signal],
    cfg: Cfg,
    calls: usize,
    log: Vec<String>,
}

fn fmt_inputs(inputs: &[InputEntry<'_>]) -> String {
    inputs
        .iter()
        .map(|i| format!("{}={}{}", i.signal.name, i.value, if i.changed { "*" } else { "" }))
        .collect::<Vec<_>>()
        .join(" ")
}

impl<'s> Drv<'s> {
    fn answer(&mut self, inputs: &[InputEntry<'_>]) -> Vec<OutputEntry<'s>> {
        let mut outs: Vec<(usize, &'s Signal)> =
            self.signals.iter().enumerate().filter(|(_, s)| s.is_output()).collect();
        let lw: Vec<&str> = self.cfg.layout.split_whitespace().collect();
        match lw.first().copied().unwrap_or("fwd") {
            "rev" => outs.reverse(),
            "none" => outs.clear(),
            "only" => outs.retain(|(_, s)| lw[1..].contains(&s.name.as_str())),
            _ => {}
        }
        if let Some((kind, n)) = &self.cfg.deviate {
            let active = if kind == "dupfirst" || kind == "swaponce" { self.calls == *n } else { self.calls >= *n };
            if active && !outs.is_empty() {
                match kind.as_str() {
                    "swap" | "swaponce" if outs.len() >= 2 => outs.swap(0, 1),
                    "drop" => {
                        outs.remove(0);
                    }
                    "dup" | "dupfirst" => {
                        let f = outs[0];
                        outs.insert(0, f);
                    }
                    _ => {}
                }
            }
        }
        let sum: i64 = inputs.iter().filter_map(|i| i.value.value()).fold(0i64, |a, b| a.wrapping_add(b));
        outs.into_iter()
            .map(|(pos, s)| {
                let v = self.cfg.value.as_str();
                let value = if v == "z" {
                    OutputValue::Z
                } else if v == "x" {
                    OutputValue::X
                } else if v == "echo" {
                    OutputValue::Value(sum)
                } else if let Some(rest) = v.strip_prefix("seq ") {
                    let items: Vec<&str> = rest.split_whitespace().collect();
                    let it = items[(self.calls - 1).min(items.len() - 1)];
                    match it {
                        "z" => OutputValue::Z,
                        "x" => OutputValue::X,
                        n => OutputValue::Value(n.parse().unwrap_or(0)),
                    }
                } else if v == "idx" {
                    OutputValue::Value(100 * (pos as i64 + 1) + self.calls as i64)
                } else {
                    OutputValue::Value(v.strip_prefix("const ").and_then(|n| n.parse().ok()).unwrap_or(0))
                };
                OutputEntry { signal: s, value }
            })
            .collect()
    }
}

impl<'s> TestDriver for Drv<'s> {
    type Error = DrvErr;
    fn write_input_and_read_output(&mut self, inputs: &[InputEntry<'_>]) -> Result<Vec<OutputEntry<'_>>, DrvErr> {
        self.calls += 1;
        self.log.push(format!("R[{}]", fmt_inputs(inputs)));
        if self.cfg.failat.contains(&self.calls) || self.cfg.failfrom.map_or(false, |n| self.calls >= n) {
            return Err(DrvErr(self.calls));
        }
        Ok(self.answer(inputs))
    }
    fn write_input(&mut self, inputs: &[InputEntry<'_>]) -> Result<(), DrvErr> {
        if self.cfg.override_write {
            self.calls += 1;
            self.log.push(format!("W[{}]", fmt_inputs(inputs)));
            if self.cfg.failat.contains(&self.calls) || self.cfg.failfrom.map_or(false, |n| self.calls >= n) {
                return Err(DrvErr(self.calls));
            }
            Ok(())
        } else {
            self.write_input_and_read_output(inputs).map(|_| ())
        }
    }
}

fn esc(s: &str) -> String {
    s.replace('\\', "\\\\").replace('"', "\\\"").replace('\n', "\\n")
}
fn jlist(v: &[String]) -> String {
    format!("[{}]", v.iter().map(|r| format!("\"{}\"", esc(r))).collect::<Vec<_>>().join(","))
}

/// `verif_replay --grid <alphabet-file> <depth>`: bounded exhaustive stand-in for the lexer-dependent part of C09 (and the
/// no-panic part of C10/C11): every text made of up to <depth> items of the alphabet (joined by blanks), on its own and
/// behind the header line `A B`, is parsed under catch_unwind; an accepted text is bound to the inputs A, B and iterated
/// statically (at most 40 rows; texts containing `while` are not iterated: they may legitimately not terminate).
/// Oracle, from the statements: no panic; a parse error has only locations inside the text on character boundaries.
fn grid(alpha_path: &str, depth: usize) {
    let alpha: Vec<String> = std::fs::read_to_string(alpha_path)
        .expect("alphabet")
        .lines()
        .filter(|l| !l.is_empty() && !l.starts_with("##"))
        .map(|l| l.replace("\\n", "\n").replace("\\t", "\t").replace("\\r", "\r").replace("\\s", " "))
        .collect();
    std::panic::set_hook(Box::new(|_| {}));
    let sigs = vec![
        Signal { name: "A".into(), bits: 8, typ: SignalType::Input { default: InputValue::Value(0) } },
        Signal { name: "B".into(), bits: 8, typ: SignalType::Input { default: InputValue::Value(0) } },
    ];
    let mut checked = 0u64;
    let mut accepted = 0u64;
    let mut failures: Vec<String> = vec![];
    let mut idx = vec![0usize; 0];
    let check_text = |text: &str, checked: &mut u64, accepted: &mut u64, failures: &mut Vec<String>| {
        *checked += 1;
        let t = text.to_string();
        let r = catch_unwind(|| t.parse::<ParsedTestCase>());
        match r {
            Err(p) => failures.push(format!("parse panic on {:?}: {}", text, panic_msg(p))),
            Ok(Err(e)) => {
                let ok = e.at.iter().all(|s| s.start <= s.end && s.end <= text.len() && text.is_char_boundary(s.start) && text.is_char_boundary(s.end));
                if !ok {
                    failures.push(format!("error location outside the text on {:?}: {:?}", text, e.at));
                }
            }
            Ok(Ok(p)) => {
                *accepted += 1;
                if !text.contains("while") {
                    let s2 = sigs.clone();
                    let r2 = catch_unwind(AssertUnwindSafe(|| {
                        if let Ok(tc) = p.with_signals(s2) {
                            if let Ok(it) = tc.try_iter_static() {
                                for _ in it.take(40) {}
                            }
                        }
                    }));
                    if let Err(pn) = r2 {
                        failures.push(format!("bind/iterate panic on {:?}: {}", text, panic_msg(pn)));
                    }
                }
            }
        }
    };
    for len in 0..=depth {
        idx.clear();
        idx.resize(len, 0);
        loop {
            let body = idx.iter().map(|&i| alpha[i].as_str()).collect::<Vec<_>>().join(" ");
            check_text(&body, &mut checked, &mut accepted, &mut failures);
            let with_header = format!("A B\n{}", body);
            check_text(&with_header, &mut checked, &mut accepted, &mut failures);
            if failures.len() > 20 {
                break;
            }
            // next index vector
            let mut k = len;
            loop {
                if k == 0 {
                    break;
                }
                k -= 1;
                idx[k] += 1;
                if idx[k] < alpha.len() {
                    break;
                }
                idx[k] = 0;
                if k == 0 {
                    k = usize::MAX;
                    break;
                }
            }
            if len == 0 || k == usize::MAX {
                break;
            }
        }
        if failures.len() > 20 {
            break;
        }
    }
    println!(
        "{{\"grid\":true,\"alphabet\":{},\"depth\":{},\"checked\":{},\"accepted\":{},\"failures\":{}}}",
        alpha.len(),
        depth,
        checked,
        accepted,
        jlist(&failures)
    );
}

fn fmt_signal(s: &Signal) -> String {
    let d = |v: &InputValue| match v {
        InputValue::Value(n) => format!("{}", n),
        InputValue::Z => "Z".to_string(),
    };
    match &s.typ {
        SignalType::Input { default } => format!("in {} {} {}", s.name, s.bits, d(default)),
        SignalType::Output => format!("out {} {}", s.name, s.bits),
        SignalType::Bidirectional { default } => format!("bidir {} {} {}", s.name, s.bits, d(default)),
        SignalType::Virtual { .. } => format!("virtual {} {}", s.name, s.bits),
    }
}

type Loaded = Result<digital_test_runner::TestCase, digital_test_runner::errors::LoadTestError>;

/// what the statement says load_test(i) equals: parse source i, bind it to the file's signals
fn direct_load(src: &str, signals: Vec<Signal>) -> Loaded {
    let p: ParsedTestCase = src.parse()?;
    Ok(p.with_signals(signals)?)
}

fn load_class(r: &std::thread::Result<Loaded>) -> String {
    match r {
        Err(_) => "panic".into(),
        Ok(Ok(_)) => "ok".into(),
        Ok(Err(e)) => format!("err({})", esc(&format!("{}", e))),
    }
}

/// `a` is what the file API returned, `b` the reference (None: an error other than a parse/signal error is required)
fn cmp_load(a: std::thread::Result<Loaded>, b: Option<std::thread::Result<Loaded>>) -> String {
    use digital_test_runner::errors::LoadTestError as L;
    match b {
        None => match &a {
            Ok(Err(L::IndexOutOfBounds { .. })) => "index-error".into(),
            Ok(Err(L::TestNotFound(_))) => "name-error".into(),
            _ => format!("DIFFERS expected-lookup-error got {}", load_class(&a)),
        },
        Some(b) => {
            let same = match (&a, &b) {
                (Ok(Ok(x)), Ok(Ok(y))) => x == y,
                (Ok(Err(x)), Ok(Err(y))) => format!("{}", x) == format!("{}", y),
                (Err(_), Err(_)) => true,
                _ => false,
            };
            if same {
                format!("same {}", load_class(&a))
            } else {
                format!("DIFFERS got {} reference {}", load_class(&a), load_class(&b))
            }
        }
    }
}

/// `verif_replay --dig [load] <file.dig>...`: runs dig::File::parse on the text of every file (under catch_unwind) and prints the recovered
/// interface as one JSON line: "signals": ["in A 1 0", "out Y 4", "bidir B 1 Z"], "tests": [[name, source]..] or "error" /
/// "panic"; with `load`, "loaded": for every test index i whether load_test(i) equals from_str(source i).with_signals(signals)
/// (compared by the signal list and the Debug rendering of the statements' rows under a constant driver is out of reach:
/// compared by Ok/Err class and the signals of the TestCase), and load_test(len) / load_test_by_name results.
fn dig(path: &str, load: bool) {
    let text = std::fs::read_to_string(path).expect("read dig file");
    let r = catch_unwind(AssertUnwindSafe(|| digital_test_runner::dig::File::parse(&text)));
    let mut o = String::from("{");
    match r {
        Err(p) => o += &format!("\"panic\": \"{}\"", esc(&panic_msg(p))),
        Ok(Err(e)) => o += &format!("\"error\": \"{}\"", esc(&format!("{}", e))),
        Ok(Ok(f)) => {
            let sigs: Vec<String> = f.signals.iter().map(fmt_signal).collect();
            o += &format!("\"signals\": {}", jlist(&sigs));
            let tests: Vec<String> =
                f.test_cases.iter().map(|t| format!("[\"{}\", \"{}\"]", esc(&t.name), esc(&t.source))).collect();
            o += &format!(", \"tests\": [{}]", tests.join(", "));
            if load {
                let mut l = vec![];
                for i in 0..=f.test_cases.len() {
                    let a = catch_unwind(AssertUnwindSafe(|| f.load_test(i)));
                    let b = if i < f.test_cases.len() {
                        Some(catch_unwind(AssertUnwindSafe(|| direct_load(&f.test_cases[i].source, f.signals.clone()))))
                    } else {
                        None
                    };
                    l.push(format!("{} {}", i, cmp_load(a, b)));
                }
                o += &format!(", \"loaded\": {}", jlist(&l));
                // every label, and near misses of every label (letter case, blanks, one character more or less): a name selects the
                // first test whose label EQUALS it and is unknown otherwise
                let mut names: Vec<String> = vec![];
                for t in &f.test_cases {
                    let l = &t.name;
                    let mut cand = vec![l.clone(), l.to_uppercase(), l.to_lowercase(), format!("{} ", l), format!(" {}", l), format!("{}x", l)];
                    if let Some((i, _)) = l.char_indices().last() {
                        cand.push(l[..i].to_string());
                    }
                    for c in cand {
                        if !names.contains(&c) {
                            names.push(c);
                        }
                    }
                }
                names.retain(|n| n != "no such test");
                names.push("no such test".into());
                let mut bn = vec![];
                for n in names {
                    let first = f.test_cases.iter().position(|t| t.name == n);
                    let a = catch_unwind(AssertUnwindSafe(|| f.load_test_by_name(&n)));
                    let b = first.map(|i| catch_unwind(AssertUnwindSafe(|| f.load_test(i))));
                    bn.push(format!("{} {}", n, cmp_load(a, b)));
                }
                o += &format!(", \"by_name\": {}", jlist(&bn));
            }
        }
    }
    println!("{}}}", o);
}

fn main() {
    if std::env::args().nth(1).as_deref() == Some("--dig") {
        // --dig [load] <file>...: one JSON line per file, in order
        let mut load = false;
        for a in std::env::args().skip(2) {
            if a == "load" {
                load = true;
            } else {
                dig(&a, load);
            }
        }
        return;
    }
    if std::env::args().nth(1).as_deref() == Some("--grid") {
        let a = std::env::args().nth(2).expect("alphabet file");
        let d: usize = std::env::args().nth(3).and_then(|x| x.parse().ok()).unwrap_or(2);
        grid(&a, d);
        return;
    }
    if std::env::args().nth(1).as_deref() == Some("--batch") {
        // --batch <scenario>...: one JSON line per scenario file, in order (a panic inside the crate is caught per scenario)
        for a in std::env::args().skip(2) {
            run_one(&a);
        }
        return;
    }
    let path = std::env::args().nth(1).expect("scenario file");
    run_one(&path);
}

fn run_one(path: &str) {
    let text = std::fs::read_to_string(path).expect("read scenario");
    let mut signals = vec![];
    let mut cfg = Cfg { value: "const 0".into(), layout: "fwd".into(), ..Default::default() };
    let mut maxrows = 64usize;
    let mut want_vars = false;
    let mut keep_going = false;
    let mut want_static = false;
    let mut want_verdicts = false;
    let mut want_rerun = false;
    let mut program = String::new();
    let mut in_prog = false;
    for line in text.split_inclusive('\n') {
        if in_prog {
            program.push_str(line);
            continue;
        }
        let l = line.trim();
        let w: Vec<&str> = l.split_whitespace().collect();
        if w.is_empty() {
            continue;
        }
        match w[0] {
            "signal" => {
                let bits: usize = w[3].parse().unwrap();
                let def = if w.len() > 4 {
                    if w[4] == "Z" { InputValue::Z } else { InputValue::Value(w[4].parse().unwrap()) }
                } else {
                    InputValue::Value(0)
                };
                signals.push(match w[1] {
                    "in" => Signal { name: w[2].into(), bits, typ: SignalType::Input { default: def } },
                    "out" => Signal { name: w[2].into(), bits, typ: SignalType::Output },
                    _ => Signal { name: w[2].into(), bits, typ: SignalType::Bidirectional { default: def } },
                });
            }
            "driver" => match w.get(1).copied() {
                Some("value") => cfg.value = w[2..].join(" "),
                Some("layout") => cfg.layout = w[2..].join(" "),
                Some("deviate") => cfg.deviate = Some((w[2].to_string(), w[3].parse().unwrap())),
                Some("failat") => cfg.failat = w[2..].iter().map(|x| x.parse().unwrap()).collect(),
                Some("failfrom") => cfg.failfrom = Some(w[2].parse().unwrap()),
                Some("override_write") => cfg.override_write = true,
                // old single-line forms
                Some("none") => cfg.layout = "none".into(),
                Some("dupdrop") => cfg.deviate = Some(("dupfirst".into(), 1)),
                Some("const") | Some("echo") | Some("z") | Some("x") | Some("idx") => cfg.value = w[1..].join(" "),
                _ => {}
            },
            "maxrows" => maxrows = w[1].parse().unwrap(),
            "vars" => want_vars = true,
            "continue" => keep_going = true,
            "static" => want_static = true,
            "verdicts" => want_verdicts = true,
            "rerun" => want_rerun = true,
            "program" => in_prog = true,
            _ => {}
        }
    }
    std::panic::set_hook(Box::new(|_| {}));
    let parsed = catch_unwind(|| program.parse::<ParsedTestCase>());
    let parsed = match parsed {
        Err(p) => {
            println!("{{\"stage\":\"parse\",\"outcome\":\"panic\",\"message\":\"{}\"}}", esc(&panic_msg(p)));
            return;
        }
        Ok(Err(e)) => {
            let inb = e.at.iter().all(|s| {
                s.start <= s.end && s.end <= program.len() && program.is_char_boundary(s.start) && program.is_char_boundary(s.end)
            });
            println!(
                "{{\"stage\":\"parse\",\"outcome\":\"error\",\"message\":\"{}\",\"spans\":\"{:?}\",\"spans_valid\":{}}}",
                esc(&format!("{:?}", e)),
                e.at,
                inb
            );
            return;
        }
        Ok(Ok(p)) => p,
    };
    let sigs = signals.clone();
    let tc = match catch_unwind(AssertUnwindSafe(|| parsed.with_signals(sigs))) {
        Err(p) => {
            println!("{{\"stage\":\"bind\",\"outcome\":\"panic\",\"message\":\"{}\"}}", esc(&panic_msg(p)));
            return;
        }
        Ok(Err(e)) => {
            println!("{{\"stage\":\"bind\",\"outcome\":\"error\",\"message\":\"{}\"}}", esc(&format!("{:?}", e)));
            return;
        }
        Ok(Ok(t)) => t,
    };
    let signames = tc.signals.iter().map(|s| s.name.clone()).collect::<Vec<_>>().join(" ");
    let cfg2 = cfg.clone();
    let mut drv = Drv { signals: &tc.signals, cfg, calls: 0, log: vec![] };
    let mut dynproj: Vec<String> = vec![];
    let res = catch_unwind(AssertUnwindSafe(|| {
        let mut rows = vec![];
        let mut vars = vec![];
        let mut it = match tc.try_iter(&mut drv) {
            Ok(it) => it,
            Err(e) => return (rows, vars, Some(format!("construct: {:?}", e))),
        };
        let mut n = 0;
        loop {
            if n >= maxrows {
                rows.push("...".to_string());
                break;
            }
            match it.next() {
                None => break,
                Some(Ok(r)) => {
                    dynproj.push(format!(
                        "line {} in [{}] exp [{}]",
                        r.line,
                        fmt_inputs(&r.inputs),
                        r.outputs.iter().map(|x| format!("{}={}", x.signal.name, x.expected)).collect::<Vec<_>>().join(" ")
                    ));
                    let mut line = format!(
                        "line {} in [{}] out [{}]",
                        r.line,
                        fmt_inputs(&r.inputs),
                        r.outputs.iter().map(|x| format!("{}={}/{}", x.signal.name, x.output, x.expected)).collect::<Vec<_>>().join(" ")
                    );
                    if want_verdicts {
                        let names = |f: &dyn Fn(&digital_test_runner::OutputResultEntry<'_>) -> bool| {
                            r.outputs.iter().filter(|x| f(x)).map(|x| x.signal.name.clone()).collect::<Vec<_>>().join(" ")
                        };
                        let fo = r.failing_outputs().map(|x| x.signal.name.clone()).collect::<Vec<_>>().join(" ");
                        let fail = names(&|x| !x.check());
                        line.push_str(&format!(" pass [{}] fail [{}] unchecked [{}]", names(&|x| x.check()), fail, names(&|x| !x.is_checked())));
                        if fo != fail {
                            line.push_str(" failing_outputs-differs");
                        }
                    }
                    rows.push(line);
                    if want_vars {
                        let mut v: Vec<(String, i64)> = it.vars().into_iter().collect();
                        v.sort();
                        vars.push(v.iter().map(|(k, x)| format!("{k}={x}")).collect::<Vec<_>>().join(" "));
                    }
                }
                Some(Err(e)) => {
                    if keep_going {
                        // the caller carries on past an error item (the iterator allows it)
                        let msg = format!("{:?}", e);
                        dynproj.push("ERR".to_string());
                        rows.push(format!("ERR {}", msg.split('(').take(4).collect::<Vec<_>>().join("(")));
                        if want_vars {
                            let mut v: Vec<(String, i64)> = it.vars().into_iter().collect();
                            v.sort();
                            vars.push(v.iter().map(|(k, x)| format!("{k}={x}")).collect::<Vec<_>>().join(" "));
                        }
                    } else {
                        dynproj.push("ERR".to_string());
                        return (rows, vars, Some(format!("row error: {:?}", e)));
                    }
                }
            }
            n += 1;
        }
        (rows, vars, None)
    }));
    match res {
        Err(p) => println!(
            "{{\"stage\":\"run\",\"outcome\":\"panic\",\"message\":\"{}\",\"calls\":{}}}",
            esc(&panic_msg(p)),
            jlist(&drv.log)
        ),
        Ok((rows, vars, err)) => {
            let mut o = format!("{{\"signals\":\"{}\",\"stage\":\"run\",\"outcome\":", esc(&signames));
            o.push_str(if err.is_some() { "\"error-item\"" } else { "\"ok\"" });
            o.push_str(&format!(",\"nrows\":{},\"rows\":{},\"calls\":{}", rows.len(), jlist(&rows), jlist(&drv.log)));
            if want_vars {
                o.push_str(&format!(",\"vars\":{}", jlist(&vars)));
            }
            if let Some(e) = err {
                o.push_str(&format!(",\"message\":\"{}\"", esc(&e)));
            }
            if want_rerun {
                let fmt_row = |r: &digital_test_runner::DataRow<'_>| {
                    format!(
                        "line {} in [{}] out [{}]",
                        r.line,
                        fmt_inputs(&r.inputs),
                        r.outputs.iter().map(|x| format!("{}={}/{}", x.signal.name, x.output, x.expected)).collect::<Vec<_>>().join(" ")
                    )
                };
                let collect = |d: &mut Drv<'_>| -> Vec<String> {
                    let mut v = vec![];
                    if let Ok(it) = tc.try_iter(d) {
                        for item in it.take(maxrows) {
                            match item {
                                Ok(r) => v.push(fmt_row(&r)),
                                Err(_) => {
                                    v.push("ERR".into());
                                    break;
                                }
                            }
                        }
                    }
                    v
                };
                let r = catch_unwind(AssertUnwindSafe(|| {
                    let mut d1 = Drv { signals: &tc.signals, cfg: cfg2.clone(), calls: 0, log: vec![] };
                    let first = collect(&mut d1);
                    let mut d2 = Drv { signals: &tc.signals, cfg: cfg2.clone(), calls: 0, log: vec![] };
                    let second = collect(&mut d2);
                    // two iterators over the one test, advanced alternately
                    let mut da = Drv { signals: &tc.signals, cfg: cfg2.clone(), calls: 0, log: vec![] };
                    let mut db = Drv { signals: &tc.signals, cfg: cfg2.clone(), calls: 0, log: vec![] };
                    let (mut va, mut vb) = (vec![], vec![]);
                    if let (Ok(mut ia), Ok(mut ib)) = (tc.try_iter(&mut da), tc.try_iter(&mut db)) {
                        for _ in 0..maxrows {
                            let (xa, xb) = (ia.next(), ib.next());
                            if xa.is_none() && xb.is_none() {
                                break;
                            }
                            va.push(match xa { Some(Ok(r)) => fmt_row(&r), Some(Err(_)) => "ERR".into(), None => "END".into() });
                            vb.push(match xb { Some(Ok(r)) => fmt_row(&r), Some(Err(_)) => "ERR".into(), None => "END".into() });
                            if va.last().map(|s| s == "ERR").unwrap_or(false) {
                                break;
                            }
                        }
                    }
                    let reparsed = program.parse::<ParsedTestCase>().ok().and_then(|p| p.with_signals(signals.clone()).ok());
                    (first == second, va == vb && va.iter().filter(|s| *s != "END").cloned().collect::<Vec<_>>() == first, reparsed.as_ref() == Some(&tc))
                }));
                match r {
                    Ok((a, b, c)) => o.push_str(&format!(",\"rerun_same\":{},\"interleaved_same\":{},\"reparse_equal\":{}", a, b, c)),
                    Err(p) => o.push_str(&format!(",\"rerun_same\":\"panic: {}\"", esc(&panic_msg(p)))),
                }
            }
            if want_static {
                let st = catch_unwind(AssertUnwindSafe(|| match tc.try_iter_static() {
                    Err(_) => None,
                    Ok(it) => {
                        let mut v = vec![];
                        for (n, item) in it.enumerate() {
                            if n >= maxrows {
                                v.push("...".to_string());
                                break;
                            }
                            match item {
                                Ok(r) => v.push(format!(
                                    "line {} in [{}] exp [{}]",
                                    r.line,
                                    fmt_inputs(&r.inputs),
                                    r.expected.iter().map(|x| format!("{}={}", x.signal.name, x.value)).collect::<Vec<_>>().join(" ")
                                )),
                                Err(_) => {
                                    v.push("ERR".to_string());
                                    if !keep_going {
                                        break;
                                    }
                                }
                            }
                        }
                        Some(v)
                    }
                }));
                match st {
                    Err(p) => o.push_str(&format!(",\"static\":\"panic: {}\"", esc(&panic_msg(p)))),
                    Ok(None) => o.push_str(",\"static\":\"refused\""),
                    Ok(Some(v)) => o.push_str(&format!(",\"static\":{}", jlist(&v))),
                }
                o.push_str(&format!(",\"dynproj\":{}", jlist(&dynproj)));
            }
            o.push('}');
            println!("{}", o);
        }
    }
}

fn panic_msg(p: Box<dyn std::any::Any + Send>) -> String {
    if let Some(s) = p.downcast_ref::<&str>() {
        s.to_string()
    } else if let Some(s) = p.downcast_ref::<String>() {
        s.clone()
    } else {
        "panic".into()
    }
}
