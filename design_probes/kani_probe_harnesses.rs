use crate::*;
use crate::value::*;

fn any_output_value() -> OutputValue {
    match kani::any::<u8>() % 3 {
        0 => OutputValue::Value(kani::any()),
        1 => OutputValue::Z,
        _ => OutputValue::X,
    }
}
fn any_expected_value() -> ExpectedValue {
    match kani::any::<u8>() % 3 {
        0 => ExpectedValue::Value(kani::any()),
        1 => ExpectedValue::Z,
        _ => ExpectedValue::X,
    }
}

#[kani::proof]
fn check_expected_value_check() {
    let e = any_expected_value();
    let o = any_output_value();
    let r = e.check(o);
    let spec = match (e, o) {
        (ExpectedValue::X, _) => true,
        (ExpectedValue::Z, OutputValue::Z) => true,
        (ExpectedValue::Value(a), OutputValue::Value(b)) => a == b,
        _ => false,
    };
    assert!(r == spec);
    assert!(o.check(e) == spec);
}

use crate::data_row_iterator::*;
use crate::stmt::{DataEntry, Stmt};

#[kani::proof]
#[kani::unwind(3)]
fn check_mask_input() {
    let bits: usize = kani::any();
    kani::assume(bits >= 1 && bits <= 64);
    let n: i64 = kani::any();
    let signals = vec![Signal::input("A", bits, 0)];
    let tc = TestCase {
        stmts: vec![],
        signals,
        input_indices: vec![EntryIndex::Entry { entry_index: 0, signal_index: 0 }],
        expected_indices: vec![],
        read_outputs: vec![],
    };
    let rows = crate::data_row_iterator::probe_inputs(&tc, &[DataEntry::Number(n)], &[true]);
    let expect = if bits == 64 { n } else { n & (((1u64 << bits) - 1) as i64) };
    assert!(rows.len() == 1);
    assert!(rows[0].value == InputValue::Value(expect));
}


use crate::expr::Expr;
#[derive(Debug)] struct DErr; impl std::fmt::Display for DErr { fn fmt(&self, _f: &mut std::fmt::Formatter<'_>) -> std::fmt::Result { Ok(()) } } impl std::error::Error for DErr {}

struct RecDriver { calls: usize }
impl TestDriver for RecDriver {
    type Error = DErr;
    fn write_input_and_read_output(&mut self, _inputs: &[InputEntry<'_>]) -> Result<Vec<OutputEntry<'_>>, Self::Error> {
        self.calls += 1;
        Ok(vec![])
    }
}

fn stub_getrandom(dest: &mut [u8]) -> Result<(), getrandom::Error> { for b in dest.iter_mut() { *b = 0; } Ok(()) }

#[kani::proof]
#[kani::unwind(10)]
#[kani::stub(getrandom::getrandom, stub_getrandom)]
fn check_loop_rows() {
    let n: i64 = kani::any();
    kani::assume(n >= -1 && n <= 3);
    let signals = vec![Signal::input("A", 8, 0)];
    let tc = TestCase {
        stmts: vec![Stmt::Loop { variable: "i".to_string(), max: Expr::Number(n), inner: vec![Stmt::DataRow { data: vec![DataEntry::Expr(Expr::Variable("i".to_string()))], line: 2 }] }],
        signals,
        input_indices: vec![EntryIndex::Entry { entry_index: 0, signal_index: 0 }],
        expected_indices: vec![],
        read_outputs: vec![],
    };
    let mut d = RecDriver { calls: 0 };
    let Ok(mut it) = tc.try_iter(&mut d) else { panic!() };
    let mut count: i64 = 0;
    while let Some(r) = it.next() {
        let Ok(r) = r else { panic!() };
        assert!(r.inputs[0].value == InputValue::Value(count));
        count += 1;
    }
    let expect = if n <= 0 { 0 } else { n };
    assert!(count == expect);
}
