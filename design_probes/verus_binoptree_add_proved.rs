use vstd::prelude::*;
verus! {

#[derive(Debug, Clone, Copy, PartialEq, Eq)]
pub enum BinOp { Equal, NotEqual, GreaterThan, LessThan, GreaterThanOrEqual, LessThanOrEqual, Or, Xor, And, ShiftLeft, ShiftRight, Plus, Minus, Times, Divide, Reminder }

#[derive(Debug)]
pub enum Expr {
    Number(i64),
    BinOp { op: BinOp, left: Box<Expr>, right: Box<Expr> },
}

pub assume_specification<T>[ core::mem::replace::<T> ](dest: &mut T, src: T) -> (r: T)
    ensures *final(dest) == src, r == *old(dest);

impl BinOp {
    pub fn precedence(&self) -> (r: u8)
        ensures r == self.spec_prec()
    {
        match self {
            Self::Equal => 8,
            Self::NotEqual => 8,
            Self::GreaterThan => 7,
            Self::LessThan => 7,
            Self::GreaterThanOrEqual => 7,
            Self::LessThanOrEqual => 7,
            Self::Or => 6,
            Self::Xor => 5,
            Self::And => 4,
            Self::ShiftLeft => 3,
            Self::ShiftRight => 3,
            Self::Plus => 2,
            Self::Minus => 2,
            Self::Times => 1,
            Self::Divide => 1,
            Self::Reminder => 1,
        }
    }
    // from the property statement: tightest first: * / %; + -; << >>; &; ^; |; < > <= >=; = !=
    pub open spec fn spec_prec(&self) -> u8 {
        match self {
            BinOp::Times | BinOp::Divide | BinOp::Reminder => 1,
            BinOp::Plus | BinOp::Minus => 2,
            BinOp::ShiftLeft | BinOp::ShiftRight => 3,
            BinOp::And => 4,
            BinOp::Xor => 5,
            BinOp::Or => 6,
            BinOp::LessThan | BinOp::GreaterThan | BinOp::LessThanOrEqual | BinOp::GreaterThanOrEqual => 7,
            BinOp::Equal | BinOp::NotEqual => 8,
        }
    }
}

#[derive(Debug)]
pub enum BinOpTree {
    Atom(Expr),
    BinOp { op: BinOp, left: Box<BinOpTree>, right: Box<BinOpTree> },
    Dummy,
}

pub enum Tok { A(Expr), O(BinOp) }

impl BinOpTree {
    pub open spec fn flat(self) -> Seq<Tok> decreases self {
        match self {
            BinOpTree::Atom(e) => seq![Tok::A(e)],
            BinOpTree::BinOp { op, left, right } => left.flat() + seq![Tok::O(op)] + right.flat(),
            BinOpTree::Dummy => seq![],
        }
    }
    pub open spec fn maxp(self) -> int decreases self {
        match self {
            BinOpTree::Atom(e) => 0,
            BinOpTree::BinOp { op, left, right } => {
                let a = left.maxp(); let b = right.maxp(); let c = op.spec_prec() as int;
                if a >= b && a >= c { a } else if b >= c { b } else { c }
            }
            BinOpTree::Dummy => 0,
        }
    }
    pub open spec fn wf(self) -> bool decreases self {
        match self {
            BinOpTree::Atom(e) => true,
            BinOpTree::BinOp { op, left, right } => left.wf() && right.wf() && right.maxp() < op.spec_prec() && left.maxp() <= op.spec_prec(),
            BinOpTree::Dummy => false,
        }
    }

    pub proof fn lemma_wf_maxp(self)
        requires self.wf()
        ensures self matches BinOpTree::BinOp { op, left, right } ==> self.maxp() == op.spec_prec() as int,
            self.maxp() >= 0,
        decreases self
    {
        match self {
            BinOpTree::BinOp { op, left, right } => { left.lemma_wf_maxp(); right.lemma_wf_maxp(); }
            _ => {}
        }
    }

    pub fn add(&mut self, new_op: BinOp, new_expr: Expr)
        requires old(self).wf()
        ensures final(self).wf(), final(self).flat() == old(self).flat() + seq![Tok::O(new_op), Tok::A(new_expr)],
            final(self).maxp() == if old(self).maxp() >= new_op.spec_prec() { old(self).maxp() } else { new_op.spec_prec() as int },
        decreases *old(self)
    {
        proof { old(self).lemma_wf_maxp(); }
        if let Self::BinOp { op, left: _, right } = self {
            if new_op.precedence() < op.precedence() {
                right.add(new_op, new_expr);
                return;
            }
        };
        proof { assert(*self == *old(self)); }
        let left = std::mem::replace(self, Self::Dummy);
        proof { assert(left == *old(self)); }
        *self = Self::BinOp {
            op: new_op,
            left: Box::new(left),
            right: Box::new(Self::Atom(new_expr)),
        };
        proof {
            reveal_with_fuel(BinOpTree::flat, 2);
            reveal_with_fuel(BinOpTree::wf, 2);
            reveal_with_fuel(BinOpTree::maxp, 2);
            assert(self.flat() =~= old(self).flat() + seq![Tok::O(new_op), Tok::A(new_expr)]);
            assert(self.wf());
        }
    }
}

}
fn main() {}
