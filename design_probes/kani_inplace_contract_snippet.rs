// Probe (was applied to a scratch copy of /repo/src/expr.rs): in-place Kani contract on the private
// method BinOp::eval plus per-operator proof_for_contract harnesses in a cfg(kani) child module.
// Measured: Plus -> FAILED "attempt to add with overflow" in 0.12 s; ShiftLeft -> FAILED "attempt to
// shift left with overflow" in 0.31 s; LessThan -> SUCCESSFUL 0.14 s; Divide -> no answer in 150 s;
// one harness over a symbolic operator -> no answer in 15 min.
//
// impl BinOp {
//     #[cfg_attr(kani, kani::requires(!matches!(self, BinOp::Divide | BinOp::Reminder) || right != 0))]
//     #[cfg_attr(kani, kani::ensures(|r: &i64| *r == verif_kani::op_spec(*self, left, right)))]
//     fn eval(&self, left: i64, right: i64) -> i64 { ... unchanged ... }
// }
//
// #[cfg(kani)]
// mod verif_kani {
//     use super::*;
//     pub(super) fn op_spec(op: BinOp, l: i64, r: i64) -> i64 { match op { BinOp::Plus => l.wrapping_add(r), /* ... */ } }
//     #[kani::proof_for_contract(BinOp::eval)]
//     fn contract_binop_eval_plus() { let _ = BinOp::Plus.eval(kani::any(), kani::any()); }
// }
//
// command: CARGO_NET_OFFLINE=true cargo kani -Z function-contracts --harness contract_binop_eval_plus
