use vstd::prelude::*;
verus! {

pub struct InputEntry { pub v: i64 }
pub struct OutputEntry { pub v: i64 }

pub enum Call { Read(Seq<InputEntry>), Write(Seq<InputEntry>) }

pub trait TestDriver {
    type Error;

    spec fn log(&self) -> Seq<Call>;

    fn write_input_and_read_output(&mut self, inputs: &[InputEntry]) -> (r: Result<Vec<OutputEntry>, Self::Error>)
        ensures final(self).log() == old(self).log().push(Call::Read(inputs@));

    fn write_input(&mut self, inputs: &[InputEntry]) -> (r: Result<(), Self::Error>)
        ensures final(self).log() == old(self).log().push(Call::Write(inputs@));
}

pub enum IterationError<E> { Driver(E), Runtime(u8) }

impl<E> From<E> for IterationError<E> {
    #[verifier::external_body]
    fn from(e: E) -> (r: Self) { IterationError::Driver(e) }
}

pub struct DataRowIterator<'b, T> {
    pub x: u64,
    pub driver: &'b mut T,
}

impl<'b, T: TestDriver> DataRowIterator<'b, T> {
    fn handle_io(
        &mut self,
        inputs: &[InputEntry],
        update_output: bool,
    ) -> (r: Result<Vec<i64>, IterationError<T::Error>>)
        ensures
            final(self).driver.log() == old(self).driver.log().push(if update_output { Call::Read(inputs@) } else { Call::Write(inputs@) }),
    {
        if update_output {
            let outputs = self.driver.write_input_and_read_output(inputs)?;
            Ok(vec![])
        } else {
            self.driver.write_input(inputs)?;
            Ok(vec![])
        }
    }
}

}
fn main() {}
