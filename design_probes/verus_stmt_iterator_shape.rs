use vstd::prelude::*;
use vstd::std_specs::iter::IteratorSpec;
verus! {

pub enum Expr { Number(i64), Variable(String), Neg(Box<Expr>), Func { name: String, args: Vec<Expr> } }

pub enum Stmt {
    Let { name: String, expr: Expr },
    DataRow { data: Vec<i64>, line: usize },
    Loop { variable: String, max: Expr, inner: Vec<Stmt> },
    While { condition: Expr, inner: Vec<Stmt> },
    ResetRandom,
}

pub struct Ctx { pub x: i64 }
impl Ctx {
    pub fn set(&mut self, name: &str, v: i64) {}
    pub fn get(&self, name: &str) -> Option<i64> { None }
    pub fn push_frame(&mut self) {}
    pub fn pop_frame(&mut self) {}
}

#[verifier::external_body]
pub fn eval(e: &Expr, ctx: &Ctx) -> Result<i64, ()> { unimplemented!() }

pub assume_specification<T>[ core::mem::replace::<T> ](dest: &mut T, src: T) -> (r: T)
    ensures *final(dest) == src, r == *old(dest);

struct LoopState<'a> {
    variable: &'a str,
    max: i64,
    stmts: &'a [Stmt],
}

enum StmtIteratorState<'a> {
    Iterate,
    StartLoop(LoopState<'a>),
    StartIterateInner(LoopState<'a>),
    IterateInner {
        inner_iterator: Box<StmtIterator<'a>>,
        loop_state: LoopState<'a>,
    },
    EndIterateInner(LoopState<'a>),
}

pub struct StmtIterator<'a> {
    stmt_iter: std::slice::Iter<'a, Stmt>,
    inner_state: StmtIteratorState<'a>,
}

impl<'a> LoopState<'a> {
    fn take(&mut self) -> Self {
        std::mem::replace(
            self,
            LoopState {
                variable: "",
                max: 0,
                stmts: &[],
            },
        )
    }
}

impl<'a> StmtIterator<'a> {
    #[verifier::exec_allows_no_decreases_clause]
    pub fn next_with_context(
        &mut self,
        ctx: &mut Ctx,
    ) -> Result<Option<Vec<i64>>, ()> {
        loop {
            match &mut self.inner_state {
                StmtIteratorState::Iterate => {
                    let Some(next) = self.stmt_iter.next() else {
                        return Ok(None);
                    };

                    match next {
                        Stmt::Let { name, expr } => ctx.set(name, eval(expr, ctx)?),
                        Stmt::DataRow { data, line } => {
                            return Ok(Some(data.clone()));
                        }
                        Stmt::Loop {
                            variable,
                            max,
                            inner,
                        } => {
                            self.inner_state = StmtIteratorState::StartLoop(LoopState {
                                variable,
                                max: eval(max, ctx)?,
                                stmts: inner,
                            })
                        }
                        Stmt::ResetRandom => {},
                        Stmt::While { condition, inner } => {
                        }
                    }
                }
                StmtIteratorState::IterateInner {
                    inner_iterator,
                    loop_state,
                } => {
                    if let Some(result) = inner_iterator.next_with_context(ctx)? {
                        return Ok(Some(result));
                    }
                    self.inner_state = StmtIteratorState::EndIterateInner(loop_state.take())
                }
                StmtIteratorState::StartLoop(loop_state) => {
                    ctx.push_frame();
                    ctx.set(loop_state.variable, 0);
                    self.inner_state = StmtIteratorState::StartIterateInner(loop_state.take());
                }
                StmtIteratorState::StartIterateInner(loop_state) => {
                    let loop_state = loop_state.take();
                    let inner_iterator = Box::new(StmtIterator {
                        stmt_iter: loop_state.stmts.iter(),
                        inner_state: StmtIteratorState::Iterate,
                    });
                    self.inner_state = StmtIteratorState::IterateInner {
                        inner_iterator,
                        loop_state,
                    };
                }
                StmtIteratorState::EndIterateInner(loop_state) => {
                    let prev_value = ctx
                        .get(loop_state.variable)
                        .unwrap();
                    let value = prev_value + 1;
                    if value < loop_state.max {
                        ctx.set(loop_state.variable, value);
                        self.inner_state = StmtIteratorState::StartIterateInner(loop_state.take());
                    } else {
                        ctx.pop_frame();
                        self.inner_state = StmtIteratorState::Iterate;
                    }
                }
            }
        }
    }
}

}
fn main() {}
