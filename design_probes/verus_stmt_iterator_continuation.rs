// Probe: the continuation abstraction K(self) of DESIGN §4/§C01 is expressible over the real
// StmtIterator layout (slice::Iter field, boxed recursion) as a *prophetic* spec function, and
// `StmtIterator::new` verifies against it.  (Types cut down by hand for the experiment.)
use vstd::prelude::*;
use vstd::std_specs::iter::IteratorSpec;
verus! {

pub enum Stmt {
    Let { name: String, expr: i64 },
    DataRow { data: Vec<i64>, line: usize },
    Loop { variable: String, max: i64, inner: Vec<Stmt> },
}

pub struct LoopState<'a> { pub variable: &'a str, pub max: i64, pub stmts: &'a [Stmt] }

pub enum StmtIteratorState<'a> {
    Iterate,
    StartLoop(LoopState<'a>),
    IterateInner { inner_iterator: Box<StmtIterator<'a>>, loop_state: LoopState<'a> },
}

pub struct StmtIterator<'a> {
    pub stmt_iter: std::slice::Iter<'a, Stmt>,
    pub inner_state: StmtIteratorState<'a>,
}

pub enum Frame {
    Block(Seq<Stmt>),
    LoopStart { var: Seq<char>, max: i64, body: Seq<Stmt> },
    LoopBody { var: Seq<char>, max: i64, body: Seq<Stmt> },
}

pub open spec fn derefs(s: Seq<&Stmt>) -> Seq<Stmt> { s.map_values(|x: &Stmt| *x) }

impl<'a> StmtIterator<'a> {
    #[verifier::prophetic]
    pub open spec fn k(self) -> Seq<Frame>
        decreases self
    {
        let rest = Frame::Block(derefs(self.stmt_iter.remaining()));
        match self.inner_state {
            StmtIteratorState::Iterate => seq![rest],
            StmtIteratorState::StartLoop(ls) => seq![Frame::LoopStart { var: ls.variable@, max: ls.max, body: ls.stmts@ }, rest],
            StmtIteratorState::IterateInner { inner_iterator, loop_state } =>
                (*inner_iterator).k() + seq![Frame::LoopBody { var: loop_state.variable@, max: loop_state.max, body: loop_state.stmts@ }, rest],
        }
    }

    pub fn new(stmts: &'a [Stmt]) -> (r: Self)
        ensures r.k() == seq![Frame::Block(stmts@)]
    {
        let r = Self { stmt_iter: stmts.iter(), inner_state: StmtIteratorState::Iterate };
        proof {
            assert(r.stmt_iter.remaining() == stmts@.as_ref());
            assert(derefs(r.stmt_iter.remaining()) =~= stmts@);
        }
        r
    }
}

}
fn main() {}
