use vstd::prelude::*;
use vstd::std_specs::iter::IteratorSpec;
verus! {

fn t_position(v: &Vec<u64>, k: u64) -> Option<usize> { v.iter().position(|x: &u64| -> (b: bool) ensures b == (*x == k) { *x == k }) }
fn t_any(v: &Vec<u64>, k: u64) -> bool { v.iter().any(|x: &u64| -> (b: bool) ensures b == (*x == k) { *x == k }) }
fn t_enumerate(v: &Vec<u64>) { let _e = v.iter().enumerate(); }
fn t_find_map(v: &Vec<u64>, k: u64) -> Option<u64> { v.iter().find_map(|x: &u64| -> (b: Option<u64>) { if *x == k { Some(*x) } else { None } }) }
fn t_filter_map(v: &Vec<u64>, k: u64) { let _f = v.iter().filter_map(|x: &u64| -> (b: Option<u64>) { if *x == k { Some(*x) } else { None } }); }
fn t_collect(v: &Vec<u64>) -> Vec<u64> { v.iter().map(|x: &u64| -> (y: u64) ensures y == *x { *x }).collect() }
fn t_collect2(v: &Vec<u64>) -> Vec<u64> { v.iter().map(|x: &u64| -> (y: u64) ensures y == *x { *x }).collect::<Vec<_>>() }
fn t_count(v: &Vec<u64>) -> usize { v.iter().filter(|x: &&u64| -> (b: bool) { **x == 0 }).count() }
fn t_contains(v: &Vec<usize>, k: usize) -> bool { v.contains(&k) }
fn t_zip(a: &Vec<u64>, b: &Vec<u64>) { let _z = a.iter().zip(b); }
fn t_last(a: &Vec<u64>) -> Option<&u64> { a.last() }
fn t_truncate(a: &mut Vec<u64>) { a.truncate(1) }
fn t_unwrap_or(a: Option<usize>) -> usize { a.unwrap_or(0) }
fn t_replace(a: &mut u64) -> u64 { std::mem::replace(a, 0) }
fn t_swap(a: &mut u64, b: &mut u64) { std::mem::swap(a, b) }
fn t_string_eq(a: &String, b: &String) -> bool { a == b }
fn t_str_eq(a: &str, b: &str) -> bool { a == b }
fn t_string_clone(a: &String) -> String { a.clone() }
fn t_to_string(a: &str) -> String { a.to_string() }
fn t_slice_from(a: &Vec<u64>, i: usize) -> &[u64] requires i <= a.len() { &a[i..] }
fn t_box(a: Box<u64>) -> u64 { *a }
fn t_extend(a: &mut Vec<u64>, b: Vec<u64>) { a.extend(b) }
fn t_vec_clone(a: &Vec<u64>) -> Vec<u64> { a.clone() }
fn t_is_empty(a: &Vec<u64>) -> bool { a.is_empty() }
fn t_iter_next(a: &Vec<u64>) -> Option<&u64> { let mut it = a.iter(); it.next() }
fn t_opt_q(a: Option<u64>) -> Option<u64> { let x = a?; Some(x) }
fn t_wrapping(a: i64, b: i64) -> i64 { a.wrapping_add(b) }
fn t_checked(a: i64, b: i64) -> Option<i64> { a.checked_div(b) }
fn t_shl(a: i64, b: u32) -> i64 { a.wrapping_shl(b) }
}
fn main() {}
