#!/usr/bin/env python3
"""Crude pretty-printer of Verus --log vir (compact+no_span+no_type+no_encoding) function specs."""
import sys, re

def tokenize(s):
    toks=[]; i=0; n=len(s)
    while i<n:
        c=s[i]
        if c in '()': toks.append(c); i+=1
        elif c=='"':
            j=i+1
            while s[j]!='"':
                if s[j]=='\\': j+=1
                j+=1
            toks.append(s[i:j+1]); i=j+1
        elif c.isspace(): i+=1
        elif c==';' and s[i:i+2]==';;':
            j=s.find('\n',i); i = n if j<0 else j
        else:
            j=i
            while j<n and not s[j].isspace() and s[j] not in '()': j+=1
            toks.append(s[i:j]); i=j
    return toks

def parse(toks):
    pos=0
    def rec():
        nonlocal pos
        t=toks[pos]
        if t=='(':
            pos+=1; l=[]
            while toks[pos]!=')': l.append(rec())
            pos+=1; return l
        pos+=1; return t
    out=[]
    while pos<len(toks): out.append(rec())
    return out

def kw(l,key):
    for i,x in enumerate(l):
        if x==key and i+1<len(l): return l[i+1]
    return None

def path_of(x):
    # (Fun :path a::b)
    if isinstance(x,list):
        p=kw(x,':path')
        if p: return p
        for y in x:
            if isinstance(y,list):
                r=path_of(y)
                if r: return r
    return None

def typ(t):
    if not isinstance(t,list): return str(t)
    if t and t[0]=='Typ':
        k=t[1]
        if k=='TypParam': return t[2].strip('"')
        if k=='Datatype':
            dt=t[2]; name=dt[2] if dt[1]=='Path' else ' '.join(map(str,dt[1:]))
            args=', '.join(typ(a) for a in t[3]) if len(t)>3 and isinstance(t[3],list) else ''
            return f"{name}<{args}>" if args else str(name)
        if k=='Decorate': return '&'+typ(t[-1]) if 'Ref' in str(t[2]) else typ(t[-1])
        if k=='Projection': return f"<{typ(kw(t,':trait_typ_args')[0])} as {kw(t,':trait_path').split('::')[-1]}>::{kw(t,':name').strip(chr(34))}"
        if k=='Int': return str(t[2][1]) if isinstance(t[2],list) else str(t[2])
        if k=='MutRef': return '&mut '+typ(t[2])
        return ' '.join(typ(x) for x in t[1:])
    return '['+' '.join(typ(x) for x in t)+']'

def e(x):
    if not isinstance(x,list): return str(x)
    if not x: return '()'
    if x[0]=='>' : x=x[1:]
    if x[0]=='@@': return e(x[1])
    h=x[0]
    if h=='Const':
        c=x[1]; return str(c[-1]) if isinstance(c,list) else str(c)
    if h=='ReadPlace': return e(x[1])
    if h=='Place':
        k=x[1]
        if k=='Local': return e(x[2])
        if k=='DerefMut': return '*'+e(x[2])
        if k=='Temporary': return e(x[2])
        if k=='Field': return e(x[-1])+'.'+str(kw(x[2],':field') if isinstance(x[2],list) else x[2])
        return 'Place('+' '.join(e(y) for y in x[1:])+')'
    if h=='VarIdent': return x[1].strip('"')
    if h=='Var': return e(x[1])
    if h=='Old': return 'old('+e(x[1])+')'
    if h=='Call':
        tgt=kw(x,':target'); args=kw(x,':args') or []
        name=None
        if tgt[1]=='Fun': name=kw(tgt[3],':path')
        elif tgt[1]=='BuiltinSpecFun': name=str(tgt[2][1])
        elif tgt[1]=='FnSpec': return e(tgt[2])+'('+', '.join(e(a) for a in args)+')'
        else: name=str(tgt[1])
        if not isinstance(name,str): name=str(name)
        short='::'.join(name.split('::')[-2:])
        return short+'('+', '.join(e(a) for a in args)+')'
    if h=='Quant':
        q=x[1][0]; bs=x[2]
        names=', '.join(str(b[1]).split('~')[0] for b in bs)
        return f"{q.lower()}|{names}| "+e(x[3])
    if h=='Unary':
        op=x[1]
        if 'Trigger' in str(op): return e(x[2])
        if 'MutRefFuture' in str(op): return 'final('+e(x[2])+')'
        if 'Not' in str(op): return '!('+e(x[2])+')'
        return str(op[1] if len(op)>1 else op)+'('+e(x[2])+')'
    if h=='UnaryOpr':
        op=x[1]
        if op[1]=='IsVariant': return e(x[2])+' is '+kw(op,':variant').strip('"')
        if op[1]=='Field': return e(x[2])+'.'+str(kw(op,':field')).strip('"')
        return str(op[1])+'('+e(x[2])+')'
    if h=='Logical':
        op=x[1][1]; m={'Implies':'==>','And':'&&','Or':'||'}
        return '('+e(x[2])+f" {m.get(op,op)} "+e(x[3])+')'
    if h=='Binary':
        op=x[1]; s=op[1]
        if s=='Eq': s='=='
        if s=='Ne': s='!='
        if s=='Arith': s={'Add':'+','Sub':'-','Mul':'*'}.get(op[2][0] if isinstance(op[2],list) else op[2],str(op[2]))
        if s=='Inequality': s={'Le':'<=','Lt':'<','Ge':'>=','Gt':'>'}[op[2]]
        if s=='And': s='&&'
        if s=='Or': s='||'
        if s=='Implies': s='==>'
        return '('+e(x[2])+f" {s} "+e(x[3])+')'
    if h=='Multi':
        ops=x[1][2]; args=x[2]
        m={'Le':'<=','Lt':'<','Ge':'>=','Gt':'>'}
        s=e(args[0])
        for o,a in zip(ops,args[1:]):
            sym=[m[t] for t in re.findall(r'Le|Lt|Ge|Gt',str(o))]
            s+=f" {sym[0] if sym else '?'} "+e(a)
        return '('+s+')'
    if h=='Ctor':
        name=x[2].strip('"'); fs=x[3]
        return name+'{'+', '.join(str(f[1])+': '+e(f[2]) for f in fs if isinstance(f,list) and len(f)>2)+'}'
    if h=='If': return f"if {e(x[1])} {{ {e(x[2])} }} else {{ {e(x[3]) if len(x)>3 else ''} }}"
    if h=='Block': return '{ '+'; '.join(e(y) for y in x[1:])+' }'
    if h=='Match': return 'match '+e(x[1])+' {...}'
    return str(h if not isinstance(h,list) else e(h))+'('+' '.join(e(y) for y in x[1:])+')'

def main():
    src=open(sys.argv[1]).read()
    pat=sys.argv[2] if len(sys.argv)>2 else ''
    items=parse(tokenize(src))
    for it in items:
        if not isinstance(it,list) or not it or it[0]!='Function': continue
        name=path_of(it[1]) if isinstance(it[1],list) else kw(it,':name')
        name=path_of(kw(it,':name')) if kw(it,':name') else name
        if pat and not re.search(pat,str(name)): continue
        print('fn',name,' mode=',kw(it,':mode'))
        ps=kw(it,':params') or []
        print('  params:', ', '.join(f"{kw(p,':name')[1]}: {typ(kw(p,':typ'))}" for p in ps))
        r=kw(it,':ret')
        if r: print('  ret:', kw(r,':name')[1], typ(kw(r,':typ')))
        for k in (':require',':ensure',':returns',':decrease'):
            v=kw(it,k)
            if isinstance(v,list) and v and v!=['None']:
                if k==':ensure' and v and v[0] in ('>','@@'): v=[v]
                for c in (v if k!=':returns' else [v]):
                    try: print('  '+k[1:]+':', e(c))
                    except Exception as ex: print('  '+k[1:]+': <pp error',ex,'>')
        b=kw(it,':body')
        if b and b!='None' and kw(it,':mode')=='Spec':
            try: print('  body:', e(b)[:1500])
            except Exception as ex: print('  body: <pp error>',ex)
        print()
main()
