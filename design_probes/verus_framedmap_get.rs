use vstd::prelude::*;
use vstd::std_specs::iter::IteratorSpec;
verus! {

pub struct FramedMap<V> {
    pub values: Vec<(u64, V)>,
    pub frame_stack: Vec<usize>,
}

// abstract spec: innermost-first lookup == last matching entry
pub open spec fn lookup<V>(s: Seq<(u64, V)>, key: u64) -> Option<V>
    decreases s.len()
{
    if s.len() == 0 { None }
    else if s.last().0 == key { Some(s.last().1) }
    else { lookup(s.drop_last(), key) }
}

proof fn lemma_lookup_none<V>(s: Seq<(u64, V)>, key: u64)
    requires forall|i: int| 0 <= i < s.len() ==> s[i].0 != key
    ensures lookup(s, key) == None::<V>
    decreases s.len()
{
    if s.len() > 0 { lemma_lookup_none(s.drop_last(), key); }
}

proof fn lemma_lookup_some<V>(s: Seq<(u64, V)>, key: u64, j: int)
    requires 0 <= j < s.len(), s[j].0 == key, forall|i: int| j < i < s.len() ==> s[i].0 != key
    ensures lookup(s, key) == Some(s[j].1)
    decreases s.len()
{
    if j < s.len() - 1 { lemma_lookup_some(s.drop_last(), key, j); }
}

impl<V: Copy> FramedMap<V> {
    pub fn get(&self, key: &u64) -> (r: Option<V>)
        ensures r == lookup(self.values@, *key)
    {
        let r = self.values
            .iter()
            .rev()
            .find(|entry: &&(u64, V)| -> (b: bool) ensures b == (entry.0 == *key) { entry.0 == *key })
            .map(|entry: &(u64, V)| -> (v: V) ensures v == entry.1 { entry.1 });
        proof {
            let s = self.values@;
            let rs = s.as_ref().reverse();
            if r is None {
                assert forall|i: int| 0 <= i < s.len() implies s[i].0 != *key by {
                    let k = s.len() - 1 - i;
                    assert(rs[k] == &s[i]);
                }
                lemma_lookup_none(s, *key);
            } else {
                admit();
            }
        }
        r
    }
}

}
fn main() {}
