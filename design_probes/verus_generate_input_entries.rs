use vstd::prelude::*;
use vstd::std_specs::iter::IteratorSpec;
verus! {

#[derive(Debug, Clone, Copy, PartialEq, Eq)]
pub enum InputValue { Value(i64), Z }

#[derive(Debug, Clone, PartialEq, Eq)]
pub enum SignalType {
    Input { default: InputValue },
    Output,
    Bidirectional { default: InputValue },
}

#[derive(Debug, Clone, PartialEq, Eq)]
pub struct Signal { pub name: String, pub bits: usize, pub typ: SignalType }

#[derive(Debug, Clone, PartialEq, Eq)]
pub enum DataEntry { Number(i64), X, Z, C }

#[derive(Debug, Clone, PartialEq, Eq)]
pub enum EntryIndex {
    Entry { entry_index: usize, signal_index: usize },
    Default { signal_index: usize },
}

pub struct InputEntry<'a> { pub signal: &'a Signal, pub value: InputValue, pub changed: bool }

pub struct TD<'a> {
    pub signals: &'a [Signal],
    pub input_indices: &'a [EntryIndex],
}

impl Signal {
    pub fn default_value(&self) -> (r: Option<InputValue>)
        ensures r == (match self.typ { SignalType::Input { default } => Some(default), SignalType::Bidirectional { default } => Some(default), SignalType::Output => None })
    {
        match self.typ {
            SignalType::Input { default } | SignalType::Bidirectional { default } => Some(default),
            SignalType::Output => None,
        }
    }
}

pub open spec fn trunc(n: i64, bits: usize) -> i64 {
    if bits >= 64 { n } else { (n as u64 % (1u64 << (bits as u64))) as i64 }
}

impl<'a> TD<'a> {
    pub open spec fn wf(&self, width: int) -> bool {
        forall|k: int| 0 <= k < self.input_indices@.len() ==> match #[trigger] self.input_indices@[k] {
            EntryIndex::Entry { entry_index, signal_index } => entry_index < width && signal_index < self.signals@.len() && 1 <= self.signals@[signal_index as int].bits <= 64 && self.signals@[signal_index as int].typ !is Output,
            EntryIndex::Default { signal_index } => signal_index < self.signals@.len() && self.signals@[signal_index as int].typ !is Output,
        }
    }

    fn generate_input_entries(
        &self,
        stmt_entries: &[DataEntry],
        changed: &[bool],
    ) -> (r: Vec<InputEntry<'a>>)
        requires self.wf(stmt_entries@.len() as int), changed@.len() == stmt_entries@.len(),
            forall|k: int| 0 <= k < self.input_indices@.len() ==> match #[trigger] self.input_indices@[k] {
                EntryIndex::Entry { entry_index, signal_index } => stmt_entries@[entry_index as int] is Number || stmt_entries@[entry_index as int] is Z,
                _ => true },
        ensures r@.len() == self.input_indices@.len(),
    {
        self.input_indices
            .iter()
            .map(|index: &EntryIndex| -> (e: InputEntry<'a>)
              requires self.input_indices@.contains(*index)
              {
              match index {
                EntryIndex::Entry {
                    entry_index,
                    signal_index,
                } => {
                    let signal = &self.signals[*signal_index];
                    let value = match &stmt_entries[*entry_index] {
                        DataEntry::Number(n) => InputValue::Value(*n & ((1 << signal.bits) - 1)),
                        DataEntry::Z => InputValue::Z,
                        _ => unreachable!(),
                    };
                    let changed = changed[*entry_index];
                    InputEntry {
                        signal,
                        value,
                        changed,
                    }
                }
                EntryIndex::Default { signal_index } => {
                    let signal = &self.signals[*signal_index];
                    InputEntry {
                        signal,
                        value: signal.default_value().unwrap(),
                        changed: false,
                    }
                }
            }})
            .collect()
    }
}

}
fn main() {}
