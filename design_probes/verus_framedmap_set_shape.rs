use vstd::prelude::*;
use vstd::std_specs::iter::IteratorSpec;
verus! {

pub struct FramedMap<V> {
    pub values: Vec<(u64, V)>,
    pub frame_stack: Vec<usize>,
}

impl<V: Copy> FramedMap<V> {
    pub fn set(&mut self, key: u64, value: V)
    {
        let frame_start = *self.frame_stack.last().unwrap_or(&0);
        if let Some((_, entry_value)) = self.values[frame_start..]
            .iter_mut()
            .find(|entry| entry.0 == key)
        {
            *entry_value = value;
        } else {
            self.values.push((key, value));
        }
    }
}

}
fn main() {}
