//! Sanity tests of the ASSUMED specifications of std used by the Verus units ([A-std] in spec/*.rs): every std composition
//! that a trusted combinator (N7/N9) or an assume_specification stands for is executed here, literally as the combinator's
//! body has it, on pseudo-random data (fixed seed), and the assumed postcondition is evaluated in plain Rust.
//! This does not prove the assumptions; it guards against having written one down wrongly. Run by the thorough tier.
use std::collections::{HashMap, HashSet};

struct Lcg(u64);
impl Lcg {
    fn next(&mut self) -> u64 {
        self.0 = self.0.wrapping_mul(6364136223846793005).wrapping_add(1442695040888963407);
        self.0 >> 11
    }
    fn small(&mut self, n: u64) -> u64 { self.next() % n }
    fn vec(&mut self, maxlen: u64, range: u64) -> Vec<i64> { (0..self.small(maxlen + 1)).map(|_| self.small(range) as i64).collect() }
    fn i64(&mut self) -> i64 {
        match self.small(6) {
            0 => i64::MIN,
            1 => i64::MAX,
            2 => -1,
            3 => self.small(5) as i64,
            _ => self.next() as i64 ^ ((self.next() as i64) << 31),
        }
    }
}

macro_rules! check { ($n:expr, $c:expr) => { if !$c { println!("FAILED assumption: {}", $n); std::process::exit(1); } }; }

fn main() {
    let mut g = Lcg(0x5eed);
    let mut n_checks = 0u64;
    for _ in 0..4000 {
        let xs = g.vec(7, 4);
        let ys = g.vec(7, 4);
        let k = g.small(4) as i64;
        // verif_rfind_map_indexed: xs.iter().enumerate().rev().find_map(f) = image of the largest index whose image is Some
        let f = |(i, x): (usize, &i64)| if *x == k { Some(i * 10 + *x as usize) } else { None };
        let r = xs.iter().enumerate().rev().find_map(f);
        let want = (0..xs.len()).rev().find(|&i| xs[i] == k).map(|i| i * 10 + xs[i] as usize);
        check!("rfind_map_indexed", r == want);
        // verif_filter_map_indexed / verif_filter_map: the Some-images in order
        let r: Vec<usize> = xs.iter().enumerate().filter_map(f).collect::<Vec<_>>();
        let mut want = vec![];
        for i in 0..xs.len() { if xs[i] == k { want.push(i * 10 + xs[i] as usize); } }
        check!("filter_map_indexed", r == want);
        let r: Vec<i64> = xs.iter().filter_map(|x| if *x != k { Some(*x + 1) } else { None }).collect::<Vec<_>>();
        let mut want = vec![];
        for x in &xs { if *x != k { want.push(*x + 1); } }
        check!("filter_map", r == want);
        // verif_chain_any / verif_any_slice
        let r = xs.iter().chain(&ys).any(|x| *x == k);
        check!("chain_any", r == (xs.contains(&k) || ys.contains(&k)));
        check!("any_slice", xs.iter().any(|x| *x == k) == (0..xs.len()).any(|i| xs[i] == k));
        // verif_position / slice::Iter::position: first accepted index, all before rejected
        let r = xs.iter().position(|x| *x == k);
        let want = (0..xs.len()).find(|&i| xs[i] == k);
        check!("position", r == want);
        // position on an iterator that has already advanced (assume_specification on slice::Iter::position)
        let mut it = xs.iter();
        let adv = g.small(3) as usize;
        for _ in 0..adv { it.next(); }
        let rest: Vec<i64> = it.clone().copied().collect();
        let r = it.position(|x| *x == k);
        check!("iter_position", r == (0..rest.len()).find(|&i| rest[i] == k));
        // [T]::contains
        check!("contains", xs.contains(&k) == (0..xs.len()).any(|i| xs[i] == k));
        // Filter::count
        check!("filter_count", xs.iter().filter(|x| **x == k).count() == (0..xs.len()).filter(|&i| xs[i] == k).count());
        // verif_zip_try_map: a.iter().zip(b).map(f).collect::<Result<Vec<_>,_>>()
        let r: Result<Vec<i64>, usize> = xs.iter().zip(&ys).map(|(a, b)| if *a == 3 && *b == 3 { Err(7usize) } else { Ok(*a * 10 + *b) }).collect::<Result<Vec<_>, _>>();
        let n = xs.len().min(ys.len());
        let bad = (0..n).any(|i| xs[i] == 3 && ys[i] == 3);
        match &r {
            Ok(v) => check!("zip_try_map ok", !bad && v.len() == n && (0..n).all(|i| v[i] == xs[i] * 10 + ys[i])),
            Err(e) => check!("zip_try_map err", bad && *e == 7),
        }
        // verif_extend_map_drain: dst.extend(src.drain(..).map(f)): dst grows by the images in order, src is left empty
        let mut dst = xs.clone();
        let mut src = ys.clone();
        dst.extend(src.drain(..).map(|y| y * 2));
        let mut want = xs.clone();
        for y in &ys { want.push(*y * 2); }
        check!("extend_map_drain", dst == want && src.is_empty());
        // verif_drain_all
        let mut v = xs.clone();
        let r: Vec<i64> = v.drain(..).collect();
        check!("drain_all", r == xs && v.is_empty());
        // verif_vec_extend
        let mut v = xs.clone();
        v.extend(ys.clone());
        check!("vec_extend", v == [xs.clone(), ys.clone()].concat());
        // verif_map_collect
        let r: Vec<i64> = xs.iter().map(|x| *x - 1).collect::<Vec<_>>();
        check!("map_collect", r.len() == xs.len() && (0..xs.len()).all(|i| r[i] == xs[i] - 1));
        // verif_range_find_mut: v[a..].iter_mut().find(f): first index >= a accepted, as a mutable borrow; others unchanged
        let mut v = xs.clone();
        let a = (g.small(4) as usize).min(v.len());
        let want = (a..xs.len()).find(|&i| xs[i] == k);
        if let Some(m) = v[a..].iter_mut().find(|e| **e == k) { *m = 99; }
        let mut expect = xs.clone();
        if let Some(i) = want { expect[i] = 99; }
        check!("range_find_mut", v == expect);
        // verif_filter_iter (failing_outputs): xs.iter().filter(f): accepted elements in order
        let r: Vec<&i64> = xs.iter().filter(|x| **x != k).collect();
        let want: Vec<&i64> = (0..xs.len()).filter(|&i| xs[i] != k).map(|i| &xs[i]).collect();
        check!("filter_iter", r == want);
        // sort_by: a permutation, no later element smaller according to the comparator
        let mut ps: Vec<(i64, usize)> = xs.iter().enumerate().map(|(i, x)| (*x, i)).collect();
        let before = ps.clone();
        ps.sort_by(|a, b| a.0.cmp(&b.0));
        let mut a1 = before.clone(); a1.sort();
        let mut a2 = ps.clone(); a2.sort();
        check!("sort_by", a1 == a2 && (1..ps.len()).all(|i| ps[i - 1].0 <= ps[i].0));
        // verif_map_entries: m.into_iter().map(f).collect(): every entry exactly once
        let mut m: HashMap<String, i64> = HashMap::new();
        for (i, x) in xs.iter().enumerate() { m.insert(format!("k{}", x), i as i64); }
        let mc = m.clone();
        let r: Vec<(String, i64)> = m.into_iter().map(|(k, v)| (k.to_string(), v)).collect::<Vec<_>>();
        let keys: HashSet<&String> = r.iter().map(|e| &e.0).collect();
        check!("map_entries", r.len() == mc.len() && keys.len() == r.len() && r.iter().all(|(k, v)| mc.get(k) == Some(v)));
        // HashMap from_iter: a later pair with an equal key overwrites
        let pairs: Vec<(String, i64)> = xs.iter().enumerate().map(|(i, x)| (format!("n{}", x), i as i64)).collect();
        let hm: HashMap<String, i64> = pairs.iter().cloned().collect();
        for (kk, _) in &pairs {
            let last = pairs.iter().rev().find(|p| &p.0 == kk).unwrap().1;
            check!("hashmap_from_iter", hm.get(kk) == Some(&last));
        }
        check!("hashmap_from_iter dom", hm.len() == pairs.iter().map(|p| &p.0).collect::<HashSet<_>>().len());
        // HashMap entry().or_insert(): keeps an existing value
        let mut hm2: HashMap<&str, i64> = HashMap::new();
        hm2.entry("a").or_insert(1);
        hm2.entry("a").or_insert(2);
        check!("entry_or_insert", hm2["a"] == 1);
        // mem::replace
        let mut cell = k;
        let old = std::mem::replace(&mut cell, 42);
        check!("mem_replace", old == k && cell == 42);
        // join / concat / to_string / strip prefix / byte length
        let ss: Vec<String> = xs.iter().map(|x| x.to_string()).collect();
        let j = ss.join(", ");
        let mut want = String::new();
        for (i, s) in ss.iter().enumerate() { if i > 0 { want.push_str(", "); } want.push_str(s); }
        check!("join", j == want);
        check!("concat", String::from("ab") + "_out" == "ab_out");
        let s0 = String::from("héllo");
        check!("to_string", s0.to_string() == s0 && "héllo".to_string() == s0 && <&str as Into<String>>::into("héllo") == s0);
        check!("strip_prefix2", &"0x1F"[2..] == "1F" && &"0b10"[2..] == "10");
        check!("byte_len", "héllo".len() == 6 && "héllo".is_char_boundary(6) && "héllo".is_char_boundary(0));
        // Range clone
        let rg = 3usize..9;
        check!("range_clone", rg.clone() == rg);
        let (ra, rb) = ((g.i64() as usize) % 7, (g.i64() as usize) % 7);
        check!("range_is_empty", (ra..rb).is_empty() == !(ra < rb));
        // wrapping_neg / wrapping_div / wrapping_rem against 128-bit arithmetic
        let (a, b) = (g.i64(), g.i64());
        check!("wrapping_neg", a.wrapping_neg() == (-(a as i128)) as i64);
        if b != 0 {
            check!("wrapping_div", a.wrapping_div(b) == ((a as i128) / (b as i128)) as i64);
            check!("wrapping_rem", a.wrapping_rem(b) == ((a as i128) % (b as i128)) as i64);
        }
        // i64::from_str_radix: digits without a sign never give a negative number; too long is an error; value as written
        let v = g.next() >> g.small(40);
        for (radix, text) in [(10u32, format!("{}", v)), (16, format!("{:x}", v)), (8, format!("{:o}", v)), (2, format!("{:b}", v))] {
            match i64::from_str_radix(&text, radix) {
                Ok(n) => check!("from_str_radix", n >= 0 && n as u64 == v),
                Err(_) => check!("from_str_radix err", v > i64::MAX as u64),
            }
        }
        check!("from_str_radix overflow", i64::from_str_radix("99999999999999999999", 10).is_err() && i64::from_str_radix("ffffffffffffffffff", 16).is_err());
        // HashSet<&String>: membership by contents
        let owned: Vec<String> = xs.iter().map(|x| format!("s{}", x)).collect();
        let mut hs: HashSet<&String> = HashSet::new();
        let mut fresh = vec![];
        for s in &owned { fresh.push(hs.insert(s)); }
        for (i, s) in owned.iter().enumerate() {
            check!("hashset_insert", fresh[i] == !owned[..i].contains(s));
            check!("hashset_contains", hs.contains(&String::from(s.as_str())));
        }
        // Borrow: String / &str as str preserve contents
        let bs: &str = std::borrow::Borrow::borrow(&s0);
        check!("borrow_string_str", bs == "héllo");
        let r0: &str = "héllo";
        let bs2: &str = std::borrow::Borrow::<str>::borrow(&r0);
        check!("borrow_str_str", bs2 == "héllo");
        // ---- C16 (spec/dig.spec.rs) ----
        // verif_strip_suffix: Some(p) <=> s == p + suf; None <=> s does not end with suf
        for s in ["A_out", "_out", "out", "A_outx", "é_out", "", "A_out_out"] {
            let st = String::from(s);
            match st.strip_suffix("_out") {
                Some(p) => check!("strip_suffix some", format!("{}_out", p) == st),
                None => check!("strip_suffix none", !st.ends_with("_out")),
            }
        }
        // verif_name_set: collect::<HashSet<String>>() of the names = exactly the names
        let names: Vec<String> = xs.iter().map(|x| format!("n{}", x)).collect();
        let set: HashSet<String> = names.iter().map(|s| s.clone()).collect();
        for c in 0..4 { let k = format!("n{}", c); check!("name_set", set.contains(&k) == names.contains(&k)); }
        // verif_is_subset
        let other: HashSet<String> = ys.iter().map(|y| format!("n{}", y)).collect();
        check!("is_subset", set.is_subset(&other) == set.iter().all(|k| other.contains(k)));
        // verif_set_into_vec: every element exactly once
        let v: Vec<String> = set.clone().into_iter().collect();
        check!("set_into_vec members", v.iter().all(|k| set.contains(k)) && set.iter().all(|k| v.contains(k)));
        check!("set_into_vec distinct", (0..v.len()).all(|i| (i + 1..v.len()).all(|j| v[i] != v[j])));
        // verif_find_mut: first element accepted, as a mutable borrow; nothing else changes
        let mut ws = xs.clone();
        let first = xs.iter().position(|x| *x == k);
        match ws.iter_mut().find(|x| **x == k) { Some(m) => { *m = 99; } None => check!("find_mut none", first.is_none()) }
        for i in 0..xs.len() { check!("find_mut frame", ws[i] == if Some(i) == first { 99 } else { xs[i] }); }
        // verif_str_to_string / verif_position on a Vec
        check!("str_to_string", "héllo".to_string() == String::from("héllo"));
        check!("vec_position", xs.iter().position(|x| *x == k) == (0..xs.len()).find(|&i| xs[i] == k));
        n_checks += 40 + 7 + 4 + 6;
    }
    println!("sanity ok: {} evaluations of assumed std specifications", n_checks);
}
