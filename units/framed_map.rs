//@include spec/prelude.rs
use vstd::std_specs::cmp::*;
use std::collections::HashMap;
verus! {

//@item src/framed_map.rs | struct FramedMap
//@item src/framed_map.rs | struct FramedSet
//@include spec/framed_map.spec.rs

impl<K, V> FramedMap<K, V> {
//@fn FramedMap.new
//@fn FramedMap.push_frame
//@fn FramedMap.pop_frame
}

impl<K: std::hash::Hash + Eq + Clone, V: Copy> FramedMap<K, V> {
//@fn FramedMap.flatten
}

impl<K: Eq, V: Copy> FramedMap<K, V> {
//@fn FramedMap.set
//@fn FramedMap.get
}

impl<K> FramedSet<K> {
//@fn FramedSet.new
}

impl<K: Eq> FramedSet<K> {
//@fn FramedSet.push_frame
//@fn FramedSet.pop_frame
//@fn FramedSet.insert
//@fn FramedSet.contains
}

} // verus!
fn main() {}
