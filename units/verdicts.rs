//@include spec/prelude.rs
use vstd::std_specs::cmp::*;
use std::collections::HashMap;
verus! {

//@include units/inc/row_types.rs
//@include spec/string_model.rs
//@include spec/framed_map.spec.rs
//@include spec/eval_context.spec.rs
//@include spec/verdict.spec.rs

impl ExpectedValue {
//@decl ExpectedValue.check
}
impl<'a> OutputResultEntry<'a> {
//@fn OutputResultEntry.check
//@fn OutputResultEntry.is_checked
}
impl<'a> DataRow<'a> {
//@fn DataRow.failing_outputs
}

} // verus!
fn main() {}
