//@include spec/prelude.rs
use vstd::std_specs::cmp::*;
use std::collections::HashMap;
use std::collections::HashSet;
verus! {

//@include units/inc/parser_types.rs
//@include spec/string_model.rs
//@include spec/std_assumed.rs
//@include spec/derive_assumed.rs
//@include spec/framed_map.spec.rs
//@include spec/eval_context.spec.rs
//@include spec/arith.spec.rs
//@include spec/eval.spec.rs
//@include spec/row.spec.rs
//@include spec/rowview.spec.rs
//@include spec/expand.spec.rs
//@include spec/stmt.spec.rs
//@include spec/shape.spec.rs
//@include spec/driver_std.spec.rs
//@include spec/binding.spec.rs
//@include spec/binop.spec.rs
//@include spec/parser.spec.rs
//@include spec/grammar.spec.rs
//@include spec/scope.spec.rs
//@include spec/closed.spec.rs
//@include spec/closed_bridge.spec.rs

impl Token {
//@decl Token.error
}

impl TokenKind {
//@decl TokenKind.is_binary_op
}
impl BinOp {
//@decl BinOp.precedence
}
impl BinOpTree {
//@decl BinOpTree.add
}
impl Expr {
//@decl Expr.from_BinOpTree
}
impl<K: Eq> FramedSet<K> {
//@decl FramedSet.push_frame
//@decl FramedSet.pop_frame
//@decl FramedSet.insert
//@decl FramedSet.contains
}
impl<K> FramedSet<K> {
//@decl FramedSet.new
}
// N9: `impl From<TokenKind> for UnaryOp / BinOp` are emitted as inherent functions (a trait impl cannot carry the
// `requires` that their `_ => unreachable!()` arms need); `.into()` / `UnaryOp::from(..)` calls are rewritten accordingly
impl UnaryOp {
//@decl UnaryOp.from_TokenKind
}
impl BinOp {
//@decl BinOp.from_TokenKind
}

impl<'a> HeaderParser<'a> {
//@decl HeaderParser.new
//@decl HeaderParser.parse
}
impl<'a> Parser<'a> {
//@decl Parser.text
//@decl Parser.from
//@decl Parser.finish
//@decl Parser.parse_number
//@decl Parser.parse_expr
//@decl Parser.parse_factor
//@decl Parser.parse_data_row
//@fn Parser.parse_stmt_block_scope
//@decl Parser.get
//@decl Parser.peek
//@decl Parser.peek_span
//@decl Parser.at
//@decl Parser.skip
//@decl Parser.expect
}

impl ParsedTestCase {
//@fn ParsedTestCase.parse_scope
}

} // verus!
fn main() {}
