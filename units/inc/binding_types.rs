//@include units/inc/row_types.rs
// N20: the type alias `logos::Span` (= core::ops::Range<usize>) is written out; miette's NamedSource is replaced by an opaque stand-in
#[verifier::external_body]
struct VerifNamedSource { _opaque: () }
//@item src/parsed_test_case.rs | struct VirtualSignal
//@item src/parsed_test_case.rs | struct ParsedTestCase | subst "logos::Span" => "core::ops::Range<usize>" #N20
//@item src/errors.rs | struct SignalError
//@item src/errors.rs | enum SignalErrorKind | subst "logos::Span" => "core::ops::Range<usize>" #N20 | subst "NamedSource<String>" => "VerifNamedSource" #N10
