//@item src/value.rs | enum InputValue | derive(Clone, Copy, PartialEq, Eq)
//@item src/value.rs | enum OutputValue | derive(Clone, Copy, PartialEq, Eq)
//@item src/value.rs | enum ExpectedValue | derive(Clone, Copy, PartialEq, Eq, Structural)
//@include units/inc/expr_types.rs
//@item src/lib.rs | struct VirtualExpr
//@item src/lib.rs | enum SignalType
//@item src/lib.rs | struct Signal
//@item src/lib.rs | struct OutputEntry
//@item src/framed_map.rs | struct FramedMap
//@item src/eval_context.rs | struct EvalContext | subst "RefCell<StdRng>" => "VerifRng" #N10
//@item src/errors.rs | struct ExprError
//@item src/errors.rs | enum ExprErrorKind
// [A-derive] thiserror's `#[from]` on `ExprError(ExprErrorKind)` generates exactly this conversion
impl From<ExprErrorKind> for ExprError {
    fn from(k: ExprErrorKind) -> (r: Self) { ExprError(k) }
}
impl FromSpecImpl<ExprErrorKind> for ExprError {
    open spec fn obeys_from_spec() -> bool { true }
    closed spec fn from_spec(k: ExprErrorKind) -> ExprError { ExprError(k) }
}
