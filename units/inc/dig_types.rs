//@item src/value.rs | enum InputValue | derive(Clone, Copy, PartialEq, Eq)
//@item src/value.rs | enum OutputValue | derive(Clone, Copy, PartialEq, Eq)
//@include units/inc/expr_types.rs
//@item src/lib.rs | struct VirtualExpr
//@item src/lib.rs | enum SignalType
//@item src/lib.rs | struct Signal
//@item src/dig.rs | struct TestCaseDescription
//@item src/dig.rs | struct File
// N10: opaque stand-ins for types whose contents play no part in the functions of this unit: the XML / IO error payloads and
// miette's NamedSource, and the parser's and binder's types (the functions that produce them are declarations here, see spec/dig.spec.rs)
#[verifier::external_body]
struct VerifNamedSource { _opaque: () }
#[verifier::external_body]
struct VerifXmlError { _opaque: () }
#[verifier::external_body]
struct VerifIoError { _opaque: () }
#[verifier::external_body]
struct ParseError { _opaque: () }
#[verifier::external_body]
struct SignalError { _opaque: () }
#[verifier::external_body]
struct ParsedTestCase { _opaque: () }
#[verifier::external_body]
struct TestCase { _opaque: () }
//@item src/errors.rs | struct DigFileError
//@item src/errors.rs | enum DigFileErrorKind | subst "std::io::Error" => "VerifIoError" #N10 | subst "roxmltree::Error" => "VerifXmlError" #N10 | subst "logos::Span" => "core::ops::Range<usize>" #N20 | subst "NamedSource<String>" => "VerifNamedSource" #N10
//@item src/errors.rs | enum LoadTestError
// [A-derive] thiserror's `#[from]` generates exactly these conversions
impl From<DigFileErrorKind> for DigFileError {
    fn from(k: DigFileErrorKind) -> (r: Self) { DigFileError(k) }
}
impl FromSpecImpl<DigFileErrorKind> for DigFileError {
    open spec fn obeys_from_spec() -> bool { true }
    closed spec fn from_spec(k: DigFileErrorKind) -> DigFileError { DigFileError(k) }
}
impl From<ParseError> for LoadTestError {
    fn from(e: ParseError) -> (r: Self) { LoadTestError::ParseError(e) }
}
impl FromSpecImpl<ParseError> for LoadTestError {
    open spec fn obeys_from_spec() -> bool { true }
    closed spec fn from_spec(e: ParseError) -> LoadTestError { LoadTestError::ParseError(e) }
}
impl From<SignalError> for LoadTestError {
    fn from(e: SignalError) -> (r: Self) { LoadTestError::SignalError(e) }
}
impl FromSpecImpl<SignalError> for LoadTestError {
    open spec fn obeys_from_spec() -> bool { true }
    closed spec fn from_spec(e: SignalError) -> LoadTestError { LoadTestError::SignalError(e) }
}
