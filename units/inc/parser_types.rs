//@include units/inc/binding_types.rs
//@item src/lexer/token.rs | enum TokenKind | derive(Clone, Copy, PartialEq, Eq, Structural)
//@item src/lexer/token.rs | enum HeaderTokenKind | derive(Clone, Copy, PartialEq, Eq, Structural)
//@item src/lexer/token.rs | struct Token | subst "logos::Span" => "core::ops::Range<usize>" #N20
// [A-std] core::num::ParseIntError is opaque here
#[verifier::external_type_specification]
#[verifier::external_body]
pub struct ExParseIntError(core::num::ParseIntError);
//@item src/errors.rs | enum ParseErrorKind | subst "std::num::ParseIntError" => "core::num::ParseIntError" #N20
//@item src/errors.rs | struct ParseError | subst "logos::Span" => "core::ops::Range<usize>" #N20 | subst "NamedSource<String>" => "VerifNamedSource" #N10
// [A-derive] #[derive(Debug)] on ParseError (needed by Result::expect in Parser::skip; formatting is outside every property)
impl std::fmt::Debug for ParseError { #[verifier::external_body] fn fmt(&self, f: &mut std::fmt::Formatter<'_>) -> std::fmt::Result { unimplemented!() } }
// [A-derive] thiserror's `#[from]` on ParseErrorKind::NumberParseError
impl From<core::num::ParseIntError> for ParseErrorKind {
    fn from(e: core::num::ParseIntError) -> (r: Self) { ParseErrorKind::NumberParseError(e) }
}
impl FromSpecImpl<core::num::ParseIntError> for ParseErrorKind {
    open spec fn obeys_from_spec() -> bool { true }
    closed spec fn from_spec(e: core::num::ParseIntError) -> ParseErrorKind { ParseErrorKind::NumberParseError(e) }
}
//@item src/framed_map.rs | struct FramedSet
//@item src/parser/binoptree.rs | enum BinOpTree
//@include spec/func_table.spec.rs
//@include spec/tokens.spec.rs
//@item src/parser/mod.rs | struct HeaderParser | subst "Lexer<'a, HeaderTokenKind>" => "VerifHeaderLexer<'a>" #N10
//@item src/parser/mod.rs | struct Parser | subst "Peekable<TokenIter<'a>>" => "VerifTokens<'a>" #N10 | subst "logos::Span" => "core::ops::Range<usize>" #N20
//@item src/parser/mod.rs | struct ParseResult | subst "logos::Span" => "core::ops::Range<usize>" #N20
