//@item src/expr.rs | enum BinOp | derive(Clone, Copy, PartialEq, Eq)
//@item src/expr.rs | enum UnaryOp
//@item src/expr.rs | enum Expr
