//@include units/inc/eval_context_types.rs
//@item src/stmt.rs | enum Stmt
//@item src/stmt.rs | enum DataEntry
//@item src/stmt.rs | struct DataEntries
//@item src/stmt.rs | struct LoopState
//@item src/stmt.rs | struct WhileState
//@item src/stmt.rs | enum StmtIteratorState
//@item src/stmt.rs | struct StmtIterator
//@item src/lib.rs | enum EntryIndex
//@item src/lib.rs | struct InputEntry
//@item src/lib.rs | struct ExpectedEntry
//@item src/lib.rs | struct OutputResultEntry
//@item src/lib.rs | struct DataRow
//@item src/lib.rs | struct TestCase
//@item src/data_row_iterator.rs | enum OutputEntryIndex | derive(Clone, Copy)
//@item src/data_row_iterator.rs | struct DataRowIteratorTestData
//@item src/data_row_iterator.rs | struct EvaluatedRow
