//@include units/inc/row_types.rs
// N10: the bound `T: std::error::Error + 'static` is dropped (the trait is unknown to single-file Verus; nothing verified depends on it)
//@item src/errors.rs | enum IterationError | subst "<T: std::error::Error + 'static>" => "<T>" #N10
//@item src/errors.rs | struct RuntimeError
//@item src/errors.rs | enum RuntimeErrorKind
// `enum NoError {}` (uninhabited) is not accepted by Verus; an opaque stand-in is used. It only occurs as static_test::Driver's error type.
#[verifier::external_body]
struct NoError { _opaque: () }
//@item src/errors.rs | struct StaticIteratorError
//@item src/data_row_iterator.rs | struct DataRowIterator
// [A-derive] thiserror's `#[from]` conversions
impl<T> From<T> for IterationError<T> {
    fn from(e: T) -> (r: Self) { IterationError::Driver(e) }
}
impl<T> FromSpecImpl<T> for IterationError<T> {
    open spec fn obeys_from_spec() -> bool { true }
    closed spec fn from_spec(e: T) -> IterationError<T> { IterationError::Driver(e) }
}
impl From<RuntimeErrorKind> for RuntimeError {
    fn from(k: RuntimeErrorKind) -> (r: Self) { RuntimeError(k) }
}
impl FromSpecImpl<RuntimeErrorKind> for RuntimeError {
    open spec fn obeys_from_spec() -> bool { true }
    closed spec fn from_spec(k: RuntimeErrorKind) -> RuntimeError { RuntimeError(k) }
}
impl From<ExprError> for RuntimeErrorKind {
    fn from(e: ExprError) -> (r: Self) { RuntimeErrorKind::ExprError(e) }
}
impl FromSpecImpl<ExprError> for RuntimeErrorKind {
    open spec fn obeys_from_spec() -> bool { true }
    closed spec fn from_spec(e: ExprError) -> RuntimeErrorKind { RuntimeErrorKind::ExprError(e) }
}
// [A-std] std's `impl<T> From<T> for T` is the identity conversion (used by `?` when the error types already agree)
#[verifier::external_body]
proof fn axiom_reflexive_from_iteration_error<X>()
    ensures
        <IterationError<X> as FromSpec<IterationError<X>>>::obeys_from_spec(),
        forall|e: IterationError<X>| #[trigger] <IterationError<X> as FromSpec<IterationError<X>>>::from_spec(e) == e,
{
}
