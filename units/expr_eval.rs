//@include spec/prelude.rs
use vstd::std_specs::cmp::*;
use std::collections::HashMap;
verus! {

//@include units/inc/eval_context_types.rs
//@include spec/string_model.rs
//@include spec/framed_map.spec.rs
//@include spec/eval_context.spec.rs
//@include spec/arith.spec.rs
//@include spec/eval.spec.rs
//@include spec/func_table.spec.rs

impl EvalContext {
//@decl EvalContext.get
    // [A-rand] `gen_range(a..b)` panics iff the range is empty and otherwise returns a member of it. The real
    // `random` is generic over rand's SampleRange and draws through a RefCell; only this contract is used.
    #[verifier::external_body]
    fn random(&self, range: core::ops::Range<i64>) -> (r: i64)
        requires range.start < range.end,
        ensures range.start <= r < range.end,
    {
        unimplemented!()
    }
}

impl BinOp {
//@fn BinOp.eval
}

impl UnaryOp {
//@fn UnaryOp.eval
}

impl FuncTable {
//@fn FuncTable.get
}

//@fn func_random
//@fn func_ite
//@fn func_sign_ext

impl Expr {
//@fn Expr.eval
}

} // verus!
fn main() {}
