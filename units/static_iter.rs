//@include spec/prelude.rs
use vstd::std_specs::cmp::*;
use std::collections::HashMap;
verus! {

//@include units/inc/driver_types.rs
//@include spec/string_model.rs
//@include spec/std_assumed.rs
//@include spec/derive_assumed.rs
//@include spec/framed_map.spec.rs
//@include spec/eval_context.spec.rs
//@include spec/arith.spec.rs
//@include spec/eval.spec.rs
//@include spec/row.spec.rs
//@include spec/rowview.spec.rs
//@include spec/expand.spec.rs
//@include spec/stmt.spec.rs
//@include spec/shape.spec.rs
//@include spec/driver_std.spec.rs
//@include spec/driver.spec.rs
//@include spec/static.spec.rs
//@include spec/closed.spec.rs
//@include spec/noninterf.spec.rs

impl<'a, 'b, T: TestDriver> DataRowIterator<'a, 'b, T> {
//@decl DataRowIterator.try_new
//@decl DataRowIterator.next
}

impl TestCase {
//@fn TestCase.try_iter
//@fn TestCase.try_iter_static
}

impl<'a> StaticDataRow<'a> {
// N9: `impl From<DataRow<'a>> for StaticDataRow<'a> { fn from }` emitted as an inherent function
//@fn StaticDataRow.from_DataRow
}

impl<'a> StaticDataRowIterator<'a> {
// N2: `impl Iterator for StaticDataRowIterator { type Item = ..; fn next }` emitted as an inherent method
//@fn StaticDataRowIterator.next
}

} // verus!
fn main() {}
