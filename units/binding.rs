//@include spec/prelude.rs
use vstd::std_specs::cmp::*;
use std::collections::HashMap;
use std::collections::HashSet;
verus! {

//@include units/inc/binding_types.rs
//@include spec/string_model.rs
//@include spec/std_assumed.rs
//@include spec/derive_assumed.rs
//@include spec/framed_map.spec.rs
//@include spec/eval_context.spec.rs
//@include spec/arith.spec.rs
//@include spec/eval.spec.rs
//@include spec/row.spec.rs
//@include spec/rowview.spec.rs
//@include spec/expand.spec.rs
//@include spec/stmt.spec.rs
//@include spec/shape.spec.rs
//@include spec/driver_std.spec.rs
//@include spec/binding.spec.rs
//@include spec/binding_lemmas.spec.rs

impl Signal {
//@decl Signal.is_input
//@decl Signal.is_output
//@decl Signal.is_bidirectional
}
impl EntryIndex {
//@decl EntryIndex.indexes
}

impl ParsedTestCase {
//@fn ParsedTestCase.check_duplicate_signals
//@fn ParsedTestCase.build_indices
//@fn ParsedTestCase.check_missing_signals
//@fn ParsedTestCase.check_and_consume_expected_inputs
//@fn ParsedTestCase.build_read_outputs
//@fn ParsedTestCase.with_signals
}

} // verus!
fn main() {}
