//@include spec/prelude.rs
verus! {

//@item src/lexer/token.rs | enum TokenKind | derive(Clone, Copy, PartialEq, Eq, Structural)
//@item src/lexer/token.rs | struct Token | subst "logos::Span" => "core::ops::Range<usize>" #N20
//@include spec/token_iter.spec.rs
//@item src/lexer/mod.rs | struct TokenIter | subst "SpannedIter<'a, TokenKind>" => "VerifSpanned<'a>" #N10

impl<'a> TokenIter<'a> {
// N2: `impl Iterator for TokenIter { type Item = Token; fn next }` emitted as an inherent method
//@fn TokenIter.next
}

} // verus!
fn main() {}
