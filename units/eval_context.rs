//@include spec/prelude.rs
use vstd::std_specs::cmp::*;
use std::collections::HashMap;
verus! {

//@include units/inc/eval_context_types.rs
//@include spec/string_model.rs
//@include spec/framed_map.spec.rs
//@include spec/eval_context.spec.rs

impl<K, V> FramedMap<K, V> {
//@decl FramedMap.new
//@decl FramedMap.push_frame
//@decl FramedMap.pop_frame
}
impl<K: std::hash::Hash + Eq + Clone, V: Copy> FramedMap<K, V> {
//@decl FramedMap.flatten
}
impl<K: Eq, V: Copy> FramedMap<K, V> {
//@decl FramedMap.set
//@decl FramedMap.get
}

impl EvalContext {
//@decl EvalContext.new
//@fn EvalContext.new_with_outputs
//@fn EvalContext.with_seed
//@fn EvalContext.push_frame
//@fn EvalContext.pop_frame
//@fn EvalContext.set
//@fn EvalContext.get
//@fn EvalContext.set_outputs
//@fn EvalContext.reset_random_seed
//@fn EvalContext.vars
//@fn EvalContext.swap_vars
}

} // verus!
fn main() {}
