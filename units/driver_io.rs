//@include spec/prelude.rs
use vstd::std_specs::cmp::*;
use std::collections::HashMap;
verus! {

//@include units/inc/driver_types.rs
//@include spec/string_model.rs
//@include spec/std_assumed.rs
//@include spec/derive_assumed.rs
//@include spec/framed_map.spec.rs
//@include spec/eval_context.spec.rs
//@include spec/arith.spec.rs
//@include spec/eval.spec.rs
//@include spec/row.spec.rs
//@include spec/rowview.spec.rs
//@include spec/expand.spec.rs
//@include spec/stmt.spec.rs
//@include spec/shape.spec.rs
//@include spec/driver_std.spec.rs
//@include spec/driver.spec.rs

// (contract only; lets a change that starts using the width mask here still be decided)
//@decl bit_mask

impl EntryIndex {
//@decl EntryIndex.signal_index
}
impl EvalContext {
//@decl EvalContext.swap_vars
//@decl EvalContext.set_outputs
//@decl EvalContext.new_with_outputs
//@decl EvalContext.vars
}
impl Expr {
//@decl Expr.eval
}
impl<'a> EvaluatedRow<'a> {
//@decl EvaluatedRow.into_data_row
}

impl<'a> DataRowIteratorTestData<'a> {
//@decl TestData.new
//@decl TestData.generate_default_input_entries
//@decl TestData.get_row
//@fn TestData.build_output_indices
//@fn TestData.extract_output_values
}

impl<'a, 'b, T: TestDriver> DataRowIterator<'a, 'b, T> {
//@fn DataRowIterator.try_new
//@fn DataRowIterator.handle_io
//@fn DataRowIterator.vars
// N2: `impl Iterator for DataRowIterator { type Item = ..; fn next }` is emitted as an inherent method (Item spelled out)
//@fn DataRowIterator.next
}

} // verus!
fn main() {}
