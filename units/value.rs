//@include spec/prelude.rs
verus! {

//@item src/value.rs | enum InputValue | derive(Clone, Copy, PartialEq, Eq)
//@item src/value.rs | enum OutputValue | derive(Clone, Copy, PartialEq, Eq)
//@item src/value.rs | enum ExpectedValue | derive(Clone, Copy, PartialEq, Eq)
//@include spec/value.spec.rs

impl InputValue {
//@fn InputValue.value
}

impl OutputValue {
//@fn OutputValue.check
//@fn OutputValue.value
}

impl ExpectedValue {
//@fn ExpectedValue.check
}

} // verus!
fn main() {}
