//@include spec/prelude.rs
verus! {

//@include units/inc/expr_types.rs
//@item src/parser/binoptree.rs | enum BinOpTree
//@include spec/std_assumed.rs
//@include spec/binop.spec.rs

impl BinOp {
//@fn BinOp.precedence
}

// N9: the two `impl From<..> for Expr` blocks are emitted as inherent functions (a trait impl
// cannot carry the `requires wf` that `Dummy => unreachable!()` needs); `.into()` calls are
// rewritten to the function rustc resolves them to.
impl Expr {
//@fn Expr.from_BinOpTree
//@fn Expr.from_BoxBinOpTree
}

impl BinOpTree {
//@fn BinOpTree.add
}

} // verus!
fn main() {}
