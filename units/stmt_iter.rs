//@include spec/prelude.rs
use vstd::std_specs::cmp::*;
use std::collections::HashMap;
use std::mem;
verus! {

//@include units/inc/row_types.rs
//@include spec/string_model.rs
//@include spec/std_assumed.rs
//@include spec/framed_map.spec.rs
//@include spec/eval_context.spec.rs
//@include spec/arith.spec.rs
//@include spec/eval.spec.rs
//@include spec/derive_assumed.rs
//@include spec/rowview.spec.rs
//@include spec/stmt.spec.rs

impl EvalContext {
//@decl EvalContext.push_frame
//@decl EvalContext.pop_frame
//@decl EvalContext.set
//@decl EvalContext.reset_random_seed
}

impl Expr {
//@decl Expr.eval
}

impl<'a> LoopState<'a> {
//@fn LoopState.take
}

impl<'a> WhileState<'a> {
//@fn WhileState.take
}

impl DataEntry {
//@fn DataEntry.eval
}

impl<'a> StmtIterator<'a> {
//@fn StmtIterator.new
//@fn StmtIterator.next_with_context
}

} // verus!
fn main() {}
