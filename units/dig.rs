//@include spec/prelude.rs
use vstd::std_specs::cmp::*;
use std::collections::HashMap;
use std::collections::HashSet;
verus! {

//@include units/inc/dig_types.rs
//@include spec/string_model.rs
//@include spec/std_assumed.rs
//@include spec/any_slice.spec.rs
//@include spec/position.spec.rs
//@include spec/dig.spec.rs

//@fn File.parse_tail

impl File {
//@fn File.load_test
//@fn File.load_test_by_name
}

} // verus!
fn main() {}
