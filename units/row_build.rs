//@include spec/prelude.rs
use vstd::std_specs::cmp::*;
use std::collections::HashMap;
verus! {

//@include units/inc/row_types.rs
//@include spec/string_model.rs
//@include spec/framed_map.spec.rs
//@include spec/eval_context.spec.rs
//@include spec/derive_assumed.rs
//@include spec/arith.spec.rs
//@include spec/eval.spec.rs
//@include spec/row.spec.rs
//@include spec/rowview.spec.rs
//@include spec/expand.spec.rs
//@include spec/expand_closed.spec.rs
//@include spec/stmt.spec.rs
//@include spec/shape.spec.rs

impl Signal {
//@fn Signal.default_value
//@fn Signal.is_input
//@fn Signal.is_output
//@fn Signal.is_bidirectional
}

impl EntryIndex {
//@fn EntryIndex.signal_index
//@fn EntryIndex.indexes
}

//@fn bit_mask

impl<'a> DataRowIteratorTestData<'a> {
//@fn TestData.generate_default_input_entries
//@fn TestData.generate_input_entries
//@fn TestData.generate_expected_entries
//@fn TestData.check_changed_entries
//@fn TestData.entry_is_input
//@fn TestData.expand_x
//@fn TestData.expand_c
//@fn TestData.get_row
//@fn TestData.new
}

impl<'a> EvaluatedRow<'a> {
//@fn EvaluatedRow.into_data_row
}

impl<'a> StmtIterator<'a> {
//@decl StmtIterator.new
//@decl StmtIterator.next_with_context
}

} // verus!
fn main() {}
